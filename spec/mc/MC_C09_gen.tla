---------------------------- MODULE MC_C09_gen ----------------------------
(* Stage B generator for C09: one state per (type, field) of the table; EmitCases prints, per
   contents size, the priors and the values of IeCases (the driver executes their product on the
   real accessor pair); EmitOverlaps lists documented fields of one type that share bits. *)
EXTENDS IeCases, Json, TLC
VARIABLES ti, fi
Init == ti \in 1..Len(IeTypes) /\ fi \in 1..Len(IeTypes[ti].fields)
Next == UNCHANGED <<ti, fi>>
T == IeTypes[ti]
F == T.fields[fi]
EmitCases ==
  F.kind = "string" \/
  PrintT(ToJson([ti |-> ti, fi |-> fi, type |-> T.name, field |-> F.name, kind |-> F.kind,
                 groups |-> Groups(T, F)]))
EmitOverlaps ==
  \A gi \in 1..Len(T.fields) :
     (gi > fi /\ T.fields[gi].kind # "string" /\ F.kind # "string" /\ Overlaps(F, T.fields[gi]))
        => PrintT(ToJson([overlap |-> <<T.name, F.name, T.fields[gi].name>>]))
============================================================================
