INIT GenInit
NEXT Halt
CONSTANTS MaxComps = 2 MaxParams = 3 FullUnk = {"mix", "lo", "hi", "half"}
CONSTANTS UnkComp <- AllUnkComp UnkParam <- AllUnkParam
INVARIANTS EmitCase
CHECK_DEADLOCK FALSE
