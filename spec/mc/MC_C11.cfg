SPECIFICATION Spec
CONSTANTS SqnArgs <- McSqn OvfArgs <- McOvf SetArgs <- McSet Starts <- Window
ACTION_CONSTRAINT FromWindow
INVARIANTS TypeOK Composed SetCommutes Lap Runs
PROPERTIES AddOneCarries AddOneIsSuccessor SetSQNKeepsOverflow SetOverflowKeepsSQN SetIsBoth
CHECK_DEADLOCK FALSE
