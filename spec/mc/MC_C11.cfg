SPECIFICATION Spec
CONSTANTS SqnArgs <- McSqn OvfArgs <- McOvf SetArgs <- McSet Starts <- Window
ACTION_CONSTRAINT FromWindow
INVARIANTS TypeOK Composed SetCommutes Lap
PROPERTIES AddOneCarries AddOneIsSuccessor SetSQNKeepsOverflow SetOverflowKeepsSQN SetIsBoth
CHECK_DEADLOCK FALSE
