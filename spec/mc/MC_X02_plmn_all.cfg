INIT InitPlmnAll
NEXT Next
CONSTANTS Mccs = {0}
INVARIANTS PlmnLaws
CHECK_DEADLOCK FALSE
