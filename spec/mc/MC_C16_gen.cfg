INIT InitWhole
NEXT Halt
CONSTANTS Ids = {0, 65535} Lens = {0, 1, 2, 255} MaxUnits = 3 Alphabet = {0, 1, 2, 128, 255} MaxFree = 5
INVARIANTS EmitCase
CHECK_DEADLOCK FALSE
