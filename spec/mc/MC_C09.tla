------------------------------ MODULE MC_C09 ------------------------------
(* Stage A for C09: the laws of IeLayout on EVERY type and field of IeFieldTable, over the prior
   contents and values of IeCases.  One state per (type, field, prior, value); the laws are state
   invariants.  (Initial states are the 737 (type, field) pairs and one step picks prior and
   value, only so that TLC's workers share the enumeration.)  This checks the layout semantics and the table together: two fields of one type
   whose documented bits overlap are exempt from mutual non-interference (and are listed by
   MC_C09_gen). *)
EXTENDS IeCases, TLC
VARIABLES ti, fi, ph, e, v
vars == <<ti, fi, ph, e, v>>
T == IeTypes[ti]
F == T.fields[fi]
Init == /\ ti \in 1..Len(IeTypes)
        /\ fi \in 1..Len(IeTypes[ti].fields)
        /\ ph = 0 /\ e = <<>> /\ v = 0
Next == /\ ph = 0 /\ ph' = 1
        /\ \E g \in Groups(T, F) : e' \in g.priors /\ v' \in g.values
        /\ UNCHANGED <<ti, fi>>
Spec == Init /\ [][Next]_vars

Post == SetField(e, F, v)
\* set-then-get returns the value truncated to the field width
LRoundTrip == GetField(Post, F) = Truncated(e, F, v)
\* every other, non-overlapping field keeps its value; so do identifier and length
LNonInterference == \A gi \in 1..Len(T.fields) :
                      LET G == T.fields[gi] IN
                      (gi # fi /\ G.kind # "string" /\ ~Overlaps(F, G)) => GetField(Post, G) = GetField(e, G)
LScalarsKept == /\ F.kind # "iei" => Post.iei = e.iei
               /\ F.kind # "len" => Post.len = e.len
\* no bit outside the field changes: octets outside the touched rows are equal, and inside them every bit
\* position outside [LoPos, HiPos] is equal
LOutsideKept == LET L == Len(e.oct)
                    rows == Rows(F, L)
                IN /\ Len(Post.oct) = L
                   /\ \A i \in 1..L :
                        IF (i - 1) \notin rows THEN Post.oct[i] = e.oct[i]
                        ELSE \A k \in 0..7 : LET p == (i - 1) * 8 + k IN
                                (p < LoPos(F) \/ p > HiPos(F)) => BitAt(Post.oct, p) = BitAt(e.oct, p)
\* the two formulations of a bit field agree (octet arithmetic vs bit by bit)
LTwoViews == F.kind = "bits" =>
              /\ GetBits(e.oct, F.r0, F.sbit, F.n) = GetBitsB(e.oct, FirstPos(F), F.n)
              /\ Post.oct = SetBitsB(e.oct, FirstPos(F), F.n, v % 2^F.n)
\* writing back what was read changes nothing; writing twice is writing once
LIdempotent == /\ SetField(e, F, GetField(e, F)) = e
              /\ SetField(Post, F, v) = Post
\* the documented bits fit the contents (a table / annotation sanity check)
LFits == F.kind \in {"bits", "array"} => HiPos(F) < 8 * Len(e.oct)
LOctets == \A i \in 1..Len(Post.oct) : Post.oct[i] \in 0..255
\* the invariants proper: the laws hold in every state that carries a case
RoundTrip == ph = 0 \/ LRoundTrip
NonInterference == ph = 0 \/ LNonInterference
ScalarsKept == ph = 0 \/ LScalarsKept
OutsideKept == ph = 0 \/ LOutsideKept
TwoViews == ph = 0 \/ LTwoViews
Idempotent == ph = 0 \/ LIdempotent
Fits == ph = 0 \/ LFits
Octets == ph = 0 \/ LOctets
============================================================================
