INIT InitWhole
NEXT Halt
CONSTANTS Ids = {13, 65535} Lens = {0, 255} MaxUnits = 4 Alphabet = {128} MaxFree = 0
INVARIANTS EmitCase
CHECK_DEADLOCK FALSE
