---- MODULE MC_C16 ----
(* Stage A for C16: the reader machine of Pco.tla over every unit list of <= MaxUnits units
   (identifier classes Ids, content lengths Lens), every truncation point of its marshalled
   form, and every octet string of length <= MaxFree over Alphabet.
   Stage B (MC_C16_gen.cfg): the same module prints the generated cases as JSON:
   unit lists with the truncation points to try, and the free inputs. *)
EXTENDS Pco, Json
\* truncation points replayed on the real code: all of them for short forms; for long forms the
\* octets around every unit boundary (identifier, length, first and last contents octets)
RECURSIVE Bounds(_, _)
Bounds(us, p) == IF us = <<>> THEN {p} ELSE {p} \cup Bounds(Tail(us), p + 3 + Head(us).len)
CutPoints(us) == LET n == Len(Marshal(us)) IN
                 IF n <= 24 THEN 0..n
                 ELSE {c \in 0..n : \E b \in Bounds(us, 1) : c - b \in -3..5}
EmitCase == (st = "Start") =>
              IF Generated
              THEN (cut # Len(Marshal(src)) \/ PrintT(ToJson([kind |-> "units", units |-> src, cuts |-> CutPoints(src)])))
              ELSE PrintT(ToJson([kind |-> "bytes", data |-> data]))
====
