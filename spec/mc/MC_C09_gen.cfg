INIT Init
NEXT Next
CONSTANTS Wide = FALSE Seed = 1
INVARIANTS EmitCases EmitOverlaps
CHECK_DEADLOCK FALSE
