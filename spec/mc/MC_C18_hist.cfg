SPECIFICATION HSpec
CONSTANTS
  MaxGrow = 2
  Rich = FALSE
INVARIANTS WireDecodesToValue AdoptKeepsValue EmitHistory
PROPERTY GrowthLaw
CHECK_DEADLOCK FALSE
