---------------------------- MODULE MC_X01_gen ----------------------------
(* Stage B for X01: behaviours of spec/NasSecureChannel.tla with the REAL moduli (256 / 65536), chosen by TLC and
   replayed on the real library by harness/cmd/channel.
     MC_X01_gen   -simulate: long random walks of GenNext from start counts next to every boundary (SQN wrap,
                  carry 0x00FFFF -> 0x010000, last overflow epoch, count wrap 0xFFFFFF -> 0); the disjuncts of
                  GenNext are repeated to weight the walk towards Send / Deliver
     MC_X01_enum  exhaustive: EVERY behaviour of Next of length Depth over small parameter sets, printed as JSON
   The algorithm identities, direction, bearer and keys of a replay are assigned by tools/checks/x01.py: no
   action's enabling condition depends on them. *)
EXTENDS NasSecureChannel, Json
CONSTANT Depth
VARIABLE hist
gvars == <<sc, rc, net, sent, dlv, rej, budget, wrapped, last, hist>>
CtxGen == [nia |-> 2, nea |-> 1, bearer |-> 1, dir |-> 0]
\* 0xFA, 0x00FFFA, 0x00FEFC, 0xFFFFFA, 0xFFFEF0, 0xFFFF05, an ordinary value, 2^23 - 3
GenStarts == {0, 250, 65530, 65276, 16777210, 16776944, 16776965, 1193040, 8388605}
EnumStarts == {254, 65535, 16777214}
BitsGen  == [hdr |-> {0, 6, 7, 12, 14}, mac |-> {0, 13, 31}, sqn |-> {0, 3, 7}, ct |-> {0, 9, 23, 1000}]
BitsEnum == [hdr |-> {14}, mac |-> {31}, sqn |-> {0, 7}, ct |-> {9}]
NoCounts == {}
Log == hist' = Append(hist, last')
SendAny == \E m \in Msgs : Send(m)
SkipAny == \E n \in Skips : Skip(n)
NetOp == \E i \in 1..Len(net) : Drop(i) \/ Dup(i) \/ Reorder(i) \/ (\E f \in Fields : \E b \in Bits[f] : Tamper(i, f, b))
ReflectAny == \E m \in Msgs, c \in ReflectCounts \cup {rc, (sc + M - 1) % M} : Reflect(m, c)
GInit == Init /\ hist = <<[NoAct EXCEPT !.c = sc]>>          \* the first entry carries the start count
\* the walk: every disjunct instance yields ONE successor, so the numbers of instances are the weights of the
\* action classes (TLC picks uniformly among the successors); the parameters vary with the state
SkipList == <<1, 2, 1, 3, 5, 1, 2, 100, 254, 255, 255, 256, 257>>
TamperList == <<[f |-> "hdr", b |-> 14], [f |-> "mac", b |-> 0], [f |-> "sqn", b |-> 0], [f |-> "ct", b |-> 9],
                [f |-> "hdr", b |-> 0], [f |-> "mac", b |-> 31], [f |-> "sqn", b |-> 7], [f |-> "ct", b |-> 1000],
                [f |-> "hdr", b |-> 12], [f |-> "mac", b |-> 13], [f |-> "sqn", b |-> 3], [f |-> "ct", b |-> 23],
                [f |-> "hdr", b |-> 7], [f |-> "ct", b |-> 0]>>
Mix(k) == sc * 3 + budget * 5 + Len(sent) * 7 + k
MsgPick(k) == Mix(k * 5) % 12
WirePick(k) == (Mix(k) % Len(net)) + 1
GenNext == /\ \/ \E k \in 1..7 : Send(MsgPick(k))
              \/ \E k \in 1..8 : Deliver
              \/ \E k \in 1..1 : Skip(SkipList[(Mix(k * 4) % Len(SkipList)) + 1])
              \/ \E k \in 1..7 : net # <<>> /\ CASE k = 1 -> Drop(WirePick(k))
                                                  [] k = 2 -> Dup(WirePick(k))
                                                  [] k = 3 -> Reorder(Len(net))
                                                  [] OTHER -> LET t == TamperList[(Mix(k) % Len(TamperList)) + 1] IN Tamper(WirePick(k), t.f, t.b)
              \/ Reflect(MsgPick(1), rc)
              \/ Reflect(MsgPick(2), (sc + M - 1) % M)
           /\ UNCHANGED hist
EnumNext == Len(hist) <= Depth /\ Next /\ Log
\* one line per complete behaviour
Leaf == Len(hist) = Depth + 1
PrintLeaf == Leaf => PrintT(ToJson(hist))
===========================================================================
