SPECIFICATION Spec
CONSTANTS Wide = FALSE Seed = 1
INVARIANTS RoundTrip NonInterference ScalarsKept OutsideKept TwoViews Idempotent Fits Octets
CHECK_DEADLOCK FALSE
