SPECIFICATION GSpec
CONSTANTS
  Regions <- RegQuick
  RiDigits <- RiQuick
  PlmnMccs <- AllMcc
  Deep = FALSE
  Big = FALSE
INVARIANTS Emit
CHECK_DEADLOCK FALSE
