---- MODULE MC_C15 ----
(* Stage A for C15: the reader machine of Qos.tla on the whole generator tree (every marshalled
   case, every proper prefix, every identifier octet replaced by the unknown values, enlarged
   counts).  Stage B (MC_C15_gen.cfg): the same module prints every case as JSON with the
   single-octet replacements to try; for cases with a single identifier octet ALL unknown values
   are listed. *)
EXTENDS Qos, Json
AllUnknown(k) == (0..255) \ (IF k = "rules" THEN CompTypes ELSE ParamIds)
GenMuts(k, x) == LET ids == IdPos(k, x) IN
                 {<<mu[1], mu[2]>> : mu \in Muts(k, x)} \cup
                 (IF Cardinality(ids) = 1 THEN {<<p, u>> : p \in ids, u \in AllUnknown(k)} ELSE {})
GenCases(k) == IF k = "rules" THEN RuleCases(TRUE) ELSE DescCases(TRUE)
GenInit == Inputs(GenCases, FALSE)
EmitCase == (phase \notin Final /\ pos = 1 /\ out = <<>>) =>
              PrintT(ToJson([kind |-> kind, x |-> src, muts |-> GenMuts(kind, src)]))
====
