---- MODULE MC_C15 ----
(* Stage A for C15: the reader machine of Qos.tla on the whole generator tree (every marshalled
   case, every proper prefix, every identifier octet replaced by the unknown values, enlarged
   counts).  Stage B (MC_C15_gen.cfg): the same module prints every case as JSON with the
   single-octet replacements to try; for the single-component / single-parameter cases whose
   variant is in FullUnk, ALL unknown identifier values are listed. *)
EXTENDS Qos, Json
CONSTANT FullUnk
AllUnkComp == (0..255) \ CompTypes        \* thorough generator: every unknown value at every identifier position
AllUnkParam == (0..255) \ ParamIds
AllUnknown(k) == (0..255) \ (IF k = "rules" THEN CompTypes ELSE ParamIds)
Singles(k) == IF k = "rules" THEN {<<MkRule(1, 1, TRUE, <<MkFilter(1, 3, <<Comp(t, var)>>)>>, 10, FALSE, 5)>> : t \in CompTypes, var \in FullUnk}
              ELSE {<<MkDesc(9, 1, <<Param(i, var)>>)>> : i \in ParamIds, var \in FullUnk}
GenMuts(k, x) == {<<mu[1], mu[2]>> : mu \in Muts(k, x)} \cup
                 (IF x \in Singles(k) THEN {<<p, u>> : p \in IdPos(k, x), u \in AllUnknown(k)} ELSE {})
GenCases(k) == IF k = "rules" THEN RuleCases(TRUE) ELSE DescCases(TRUE)
GenInit == Inputs(GenCases, FALSE)
EmitCase == (phase \notin Final /\ pos = 1 /\ out = <<>>) =>
              PrintT(ToJson([kind |-> kind, x |-> src, muts |-> GenMuts(kind, src)]))
====
