INIT Init
NEXT Next
CONSTANTS Mccs = {0}
INVARIANTS PduLaws KsiLaws TmsiLaws HexLaws HdrLaws
CHECK_DEADLOCK FALSE
