SPECIFICATION Spec
CONSTANTS Callers = {1, 2} ProgLen = 2 UseMemo = TRUE
INVARIANT ResultsSequential
