SPECIFICATION Spec
CONSTANTS SqnMod = 4 OvfMod = 3 Ctx <- CtxSec Msgs = {1, 2} Starts <- AllCounts NetCap = 3 MaxSent = 6 EnvBudget = 0
          Env <- EnvNone Skips = {1} MaxLead = 100 AllowWrap = TRUE Bits <- BitsSmall ReflectCounts <- NoCounts RefuseWrap = FALSE
INVARIANTS TypeOK RoundTrip
PROPERTIES RejectIsNoOp
CHECK_DEADLOCK FALSE
