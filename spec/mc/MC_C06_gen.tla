----------------------------- MODULE MC_C06_gen -----------------------------
(* Stage B generator for C06 (and, with Kind = "mac", for C07): TLC enumerates the parameter lattice of
   the confidentiality / integrity functions and prints every case as JSON.  The lattice follows the case
   structure of the specification (Eea / Eia):
     * BEARER 0..31 x DIRECTION 0..1 completely (the IV octet BEARER||DIRECTION||00),
     * every bit length 0..MaxBits (all residues modulo 8, 32, 64 and every tail shape: the keystream word
       count ceil(n/32), the partial last octet, the EIA1 block count ceil(n/64), the CMAC complete /
       incomplete last block n mod 128) plus lengths around powers of two,
     * a few long inputs (LongOctets) and same-parameter call sequences with rising and falling lengths (Sequences),
     * key and COUNT patterns: all-zero, all-one, a single walking bit through all 128 key bits and all
       32 COUNT bits (key loading order, word order, byte order), and seeded random material (empty tuple:
       the driver draws it from its seeded generator).
   A case is [op, alg, key, cnt, bearer, dir, nbits, dpat]; dpat: 0 zero data, 1 all-one data, 2 random data.
   Both entry points are generated: the per-algorithm function with a bit length ("NEA"/"NIA") and the
   byte-length wrapper ("NASEncrypt"/"NASMacCalculate"), and the raw keystream generators. *)
EXTENDS Integers, Sequences, Json, TLC
CONSTANTS Kind,        \* "cipher" or "mac"
          MaxBits,     \* dense bit lengths 0..MaxBits for the per-algorithm functions
          MaxBytes,    \* dense byte lengths 0..MaxBytes for the wrappers
          BigBits,     \* extra bit lengths (set)
          BigBytes,    \* extra byte lengths for the wrappers (set)
          GridBits,    \* bit lengths used with the complete BEARER x DIRECTION grid
          Reps,        \* number of random-material repetitions of the dense length slice
          LongOctets,  \* a few long inputs (octets) for every algorithm and both entry points
          SeqGroups    \* number of same-parameter call sequences per algorithm and entry point
VARIABLE c
ZC == JsonDeserialize("zuc_corners.json")
KC == JsonDeserialize("ks_corners.json")           \* frozen keystream corner points (a repeated / all-zero / all-ones keystream word)          \* frozen corner points of the ZUC arithmetic modulo 2^31-1 (tools/zuccorners)
Zero(n) == [i \in 1..n |-> 0]
Ones(n) == [i \in 1..n |-> 255]
Walk(n, b) == [i \in 1..n |-> IF i = (b \div 8) + 1 THEN 2^(7 - (b % 8)) ELSE 0]      \* bit b (0 = most significant) set
Rnd == <<>>
FnOp == IF Kind = "cipher" THEN "NEA" ELSE "NIA"
WrOp == IF Kind = "cipher" THEN "NASEncrypt" ELSE "NASMacCalculate"
\* grp / seq: cases of one group (grp > 0) are replayed back to back in the order seq, and random key / COUNT material
\* (empty tuple) is drawn once per group: a call SEQUENCE under identical parameters.  grp = 0: an independent case.
GCase(op, alg, key, cnt, bearer, dir, nbits, dpat, grp, seq) ==
  [op |-> op, alg |-> alg, key |-> key, cnt |-> cnt, bearer |-> bearer, dir |-> dir, nbits |-> nbits, dpat |-> dpat, grp |-> grp, seq |-> seq]
Case(op, alg, key, cnt, bearer, dir, nbits, dpat) == GCase(op, alg, key, cnt, bearer, dir, nbits, dpat, 0, 0)
KeyPat(p) == CASE p = 0 -> Zero(16) [] p = 1 -> Ones(16) [] OTHER -> Rnd
CntPat(p) == CASE p = 0 -> Zero(4) [] p = 1 -> Ones(4) [] OTHER -> Rnd
\* the wrappers take whole octets; the AES based functions are octet oriented as well
BitLens(alg) == IF alg = 2 THEN {8 * n : n \in 0..(MaxBits \div 8)} \cup {8 * (n \div 8) : n \in BigBits}
                ELSE (0..MaxBits) \cup BigBits
ByteLens == (0..MaxBytes) \cup BigBytes
Grid(alg) == \* complete BEARER x DIRECTION grid
  {Case(FnOp, alg, Rnd, Rnd, b, d, IF alg = 2 THEN 8 * (n \div 8) ELSE n, 2) : b \in 0..31, d \in 0..1, n \in GridBits}
  \cup {Case(WrOp, alg, Rnd, Rnd, b, d, 8 * n, 2) : b \in 0..31, d \in 0..1, n \in {1, 9}}
  \* the same grid under one fixed key and COUNT: replayed back to back, so that a result depending on the previous call shows
  \cup {Case(op, alg, KeyPat(k), CntPat(k), b, d, 40, 2) : b \in 0..31, d \in 0..1, k \in 0..1, op \in {FnOp, WrOp}}
Dense(alg) == \* every length, with extreme and random keys; bearer / direction vary with the length
  {Case(FnOp, alg, KeyPat(p), CntPat((p + n) % 3), (n * 7 + 3 + r) % 32, (n + r) % 2, n, (n + p + r) % 3) : n \in BitLens(alg), p \in 0..2, r \in 1..Reps}
  \cup {Case(WrOp, alg, KeyPat(p), CntPat((p + n + 1) % 3), (n * 5 + 1 + r) % 32, (n + r) % 2, 8 * n, (n + p + r) % 3) : n \in ByteLens, p \in 0..2, r \in 1..Reps}
Walking(alg) == \* a single bit walking through key and COUNT
  {Case(op, alg, Walk(16, b), Zero(4), 5, 1, n, 0) : b \in 0..127, op \in {FnOp}, n \in {IF alg = 2 THEN 72 ELSE 70}}
  \cup {Case(WrOp, alg, Walk(16, b), Ones(4), 30, 0, 40, 2) : b \in 0..127}
  \cup {Case(op, alg, Zero(16), Walk(4, b), 0, 0, n, 0) : b \in 0..31, op \in {FnOp}, n \in {IF alg = 2 THEN 72 ELSE 70}}
  \cup {Case(WrOp, alg, Rnd, Walk(4, b), 31, 1, 40, 2) : b \in 0..31}
\* raw generators: key / iv of 16 octets each (cnt carries nothing), nbits = 32 * words
Raw(op) ==
  {Case(op, 0, KeyPat(p), Zero(4), 0, 0, 32 * n, q) : p \in 0..2, q \in 0..2, n \in (0..8) \cup {25, 100}}
  \cup {Case(op, 0, Walk(16, b), Zero(4), 0, 0, 96, 0) : b \in 0..127}          \* walking key bit, zero iv
  \cup {Case(op, 0, Zero(16), Zero(4), 0, 0, 96, 3 + b) : b \in 0..127}         \* walking iv bit (dpat 3+b), zero key
\* long inputs: beyond 256 AES blocks / 1024 keystream words / 512 EIA1 blocks (counter carries, long streams)
Long(alg) ==
  {Case(op, alg, KeyPat(p), CntPat(3 - p), (n + alg) % 32, n % 2, 8 * n, 2) : n \in LongOctets, p \in 1..2, op \in {FnOp, WrOp}}
LongRaw(op) == {Case(op, 0, KeyPat(p), Zero(4), 0, 0, 32 * ((n + 3) \div 4), 2) : n \in LongOctets, p \in 1..2}
\* call sequences under IDENTICAL parameters whose lengths go short-unaligned -> longer -> shorter again (and so on): a
\* result must not depend on what an earlier call with the same key / COUNT / BEARER / DIRECTION (or key / IV) left behind.
\* Bit lengths for the per-algorithm functions, octets for the wrappers, words for the raw generators.
SeqBits == <<104, 120, 104, 5, 29, 33, 97, 127, 128, 40, 250, 255, 9, 256, 1000, 70, 1001, 3, 64, 63, 65>>
SeqOctets == <<16, 13, 16, 1, 3, 2, 13, 15, 5, 31, 7, 64, 6, 33, 32, 4, 130, 129>>
SeqWords == <<1, 3, 2, 8, 5, 25, 4, 26, 1, 9>>
Gid(alg, opc, g) == alg * 1000 + opc * 100 + g
Sequences(alg) ==
  {GCase(FnOp, alg, KeyPat(g % 3), CntPat((g + 1) % 3), (g * 5 + alg) % 32, g % 2,
         IF alg = 2 THEN 8 * ((SeqBits[i] + 7) \div 8) ELSE SeqBits[i], 2, Gid(alg, 1, g), i) : g \in 1..SeqGroups, i \in DOMAIN SeqBits}
  \cup {GCase(WrOp, alg, KeyPat((g + 1) % 3), CntPat(g % 3), (g * 9 + alg) % 32, (g + 1) % 2, 8 * SeqOctets[i], 2, Gid(alg, 2, g), i)
           : g \in 1..SeqGroups, i \in DOMAIN SeqOctets}
SeqRaw(op, opc) ==
  {GCase(op, 0, KeyPat(g % 3), Zero(4), 0, 0, 32 * SeqWords[i], IF g % 2 = 0 THEN 1 ELSE 3 + g, Gid(0, opc, g), i) : g \in 1..SeqGroups, i \in DOMAIN SeqWords}
\* the corner points of the ZUC LFSR arithmetic: algorithm 3 through the per-algorithm function and the wrapper, long enough
\* for every affected keystream word to reach the output (the corner clocks lie within the first six work rounds)
Corners ==
  {Case(op, 3, ZC[i].key, ZC[i].cnt, ZC[i].bearer, ZC[i].dir, n, 2) :
     i \in {j \in 1..Len(ZC) : ZC[j].kind = (IF Kind = "cipher" THEN "eea3" ELSE "eia3")}, op \in {FnOp, WrOp}, n \in {256}}
  \cup {Case(FnOp, 3, ZC[i].key, ZC[i].cnt, ZC[i].bearer, ZC[i].dir, 67, 1) :
     i \in {j \in 1..Len(ZC) : ZC[j].kind = (IF Kind = "cipher" THEN "eea3" ELSE "eia3")}}
\* keystream corner points: the message reaches two words past the word in question (and stops right after it), both entry points
KsCorners == IF Kind # "cipher" THEN {} ELSE
  {Case(op, KC[i].alg, KC[i].key, KC[i].cnt, KC[i].bearer, KC[i].dir, 32 * (KC[i].word + d), 2) : i \in 1..Len(KC), op \in {FnOp, WrOp}, d \in {1, 3}}
Cases == Corners \cup KsCorners \cup UNION {Grid(a) \cup Dense(a) \cup Walking(a) \cup Long(a) \cup Sequences(a) : a \in 1..3}
         \cup (IF Kind = "cipher" THEN Raw("GetKeyStream") \cup Raw("Zuc") \cup LongRaw("GetKeyStream") \cup LongRaw("Zuc")
                                        \cup SeqRaw("GetKeyStream", 3) \cup SeqRaw("Zuc", 4) ELSE {})
Root == Case("root", 0, <<>>, <<>>, 0, 0, 0, 0)
Init == c = Root
Next == c = Root /\ c' \in Cases
Spec == Init /\ [][Next]_c
Emit == c = Root \/ PrintT(ToJson(c))
\* sanity of the lattice itself (checked while generating)
InDomain == c = Root \/ (c.bearer \in 0..31 /\ c.dir \in 0..1 /\ c.alg \in 0..3 /\ c.nbits >= 0)
=============================================================================
