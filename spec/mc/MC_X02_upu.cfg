INIT Init
NEXT Next
CONSTANTS MaxSets = 3 SecLens = {1, 2, 255, 256, 300} MaxSnssai = 2
INVARIANTS UpuRoundTrip UpuLength UpuFixed UpuNssai UpuReadingsDiffer
CHECK_DEADLOCK FALSE
