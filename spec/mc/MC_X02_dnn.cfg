INIT InitLabels
NEXT Next
CONSTANTS MaxLabels = 3 MaxText = 0 TextAlphabet = {46} BufAlphabet = {0} MaxBuf = 0 Labels <- LabelsAll
INVARIANTS DnnRoundTrip DnnText DnnWellFormedShape DnnClassTotal
CHECK_DEADLOCK FALSE
