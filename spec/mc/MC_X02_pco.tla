----------------------------- MODULE MC_X02_pco -----------------------------
(* Stage A: the PCO builder machine (PcoBuilder.tla) explored exhaustively on a small argument
   domain; stage B (MC_X02_pco_gen.cfg): the same machine prints every operation history. *)
EXTENDS PcoBuilder, Json
IpV4a    == <<10, 0, 0, 1>>
IpV4b    == <<255, 254, 0, 128>>
IpMapped == McMappedPrefix \o <<192, 168, 7, 9>>
IpV6a    == <<32, 1, 13, 184, 0, 0, 0, 0, 0, 0, 0, 0, 0, 0, 0, 1>>
IpV6b    == <<254, 128, 0, 0, 0, 0, 0, 0, 2, 17, 34, 255, 254, 51, 68, 85>>
IpNil    == << >>
IpOdd5   == <<1, 2, 3, 4, 5>>
IpOdd3   == <<1, 2, 3>>
IpOdd17  == IpV6a \o <<9>>
IpsAll   == {IpV4a, IpV4b, IpMapped, IpV6a, IpV6b, IpNil, IpOdd5, IpOdd3, IpOdd17}
IpsSmall == {IpV4b, IpMapped, IpV6b, IpNil, IpOdd5}
MtusAll  == {0, 1, 255, 256, 1358, 1500, 65535}
MtusSmall == {256, 1500, 65535}
EmitHistory == PrintT(ToJson([kind |-> "pco", ops |-> pbOps]))
=============================================================================
