SPECIFICATION Spec
CONSTANTS MaxOpt = 1 MsgLo = 1 MsgHi = 12 AllDeep = FALSE Local = TRUE Gen = TRUE
INVARIANTS XTotal XOwn XRound XLocal Out
CHECK_DEADLOCK FALSE
