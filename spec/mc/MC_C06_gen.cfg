SPECIFICATION Spec
CONSTANTS Kind = "cipher" MaxBits = 200 MaxBytes = 67 BigBits = {255, 256, 257, 511, 512, 513, 1023, 4095, 4096} BigBytes = {63, 64, 65, 128} GridBits = {1, 40, 67} Reps = 1 LongOctets = {4097, 8193, 65537} SeqGroups = 3
INVARIANTS InDomain Emit
CHECK_DEADLOCK FALSE
