SPECIFICATION Spec
CONSTANTS Kind = "cipher" MaxBits = 200 MaxBytes = 67 BigBits = {255, 256, 257, 511, 512, 513, 1023, 4095, 4096, 8184, 8192, 16376, 16384, 32760, 32768, 65528, 65536} BigBytes = {63, 64, 65, 128, 255, 256, 511, 512, 1016, 1023, 1024, 2047, 2048, 4088, 4095, 4096, 8191, 8192, 16383, 16384} GridBits = {1, 40, 67} Reps = 1 LongOctets = {4097, 8193, 65537} SeqGroups = 3
INVARIANTS InDomain Emit
CHECK_DEADLOCK FALSE
