SPECIFICATION Spec
CONSTANTS Kind = "cipher" MaxBits = 136 MaxBytes = 40 BigBits = {255, 256, 257, 1023} BigBytes = {63, 64, 65, 128} GridBits = {1, 40, 67} Reps = 1
INVARIANTS InDomain Emit
CHECK_DEADLOCK FALSE
