----------------------------- MODULE MC_X02_upu -----------------------------
(* Stage A for the UE parameters update transparent container of MiscConvert (TS 24.501 9.11.3.53A):
   every container over REG, ACK, at most MaxSets data sets, secured packets of the lengths SecLens
   (0 excluded: an absent packet) and default configured NSSAIs of at most MaxSnssai entries.
   Laws: the receiving reader (McUpuParse) inverts the encoding; length accounting; the fixed
   fields sit where figure 9.11.3.53A.1 puts them; the two readings of the length field (one / two
   octets) differ on every non-empty list, so an observation always tells them apart.
   Stage B (MC_X02_upu_gen.cfg) prints the same containers as cases. *)
EXTENDS MiscConvert, Json
CONSTANTS MaxSets, SecLens, MaxSnssai
VARIABLES reg, ack, sets
Mac == [i \in 1..16 |-> (i * 17 + 3) % 256]
Ctr == <<254, 1>>
Sec(n) == [i \in 1..n |-> (i * 29 + n) % 256]
Snssais == {[sst |-> 1, sd |-> << >>], [sst |-> 255, sd |-> <<1, 2, 3>>], [sst |-> 0, sd |-> <<255, 255, 255>>]}
NssaiLists == UNION {[1..n -> Snssais] : n \in 0..MaxSnssai}
ApiSets == {[sec |-> Sec(n), nssai |-> << >>] : n \in SecLens} \cup {[sec |-> << >>, nssai |-> v] : v \in NssaiLists}
Init == reg \in BOOLEAN /\ ack \in BOOLEAN /\ sets \in UNION {[1..n -> ApiSets] : n \in 0..MaxSets}
Next == UNCHANGED <<reg, ack, sets>>

ss == McUpuSetsOfApi(sets)
b == McUpuEncode(reg, ack, Mac, Ctr, ss)
RECURSIVE Size(_)
Size(x) == IF x = << >> THEN 0 ELSE 3 + Len(Head(x).body) + Size(Tail(x))
UpuRoundTrip == LET p == McUpuParse(b) IN
                p.ok /\ p.reg = reg /\ p.ack = ack /\ p.spare = 0 /\ p.mac = Mac /\ p.ctr = Ctr /\ p.sets = ss
UpuLength == Len(b) = 19 + Size(ss)
UpuFixed == /\ b[1] = McUpuHeader(reg, ack) /\ b[1] \in {0, 2, 4, 6}
            /\ SubSeq(b, 2, 17) = Mac /\ SubSeq(b, 18, 19) = Ctr
            /\ \A k \in 1..Len(ss) : ss[k].ty \in {1, 2} /\ (ss[k].ty = 1 <=> sets[k].sec # << >>)
\* the default configured NSSAI data set is a sequence of S-NSSAI values of 2 or 5 octets
UpuNssai == \A k \in 1..Len(sets) : sets[k].sec = << >> =>
                Len(ss[k].body) = 2 * Cardinality({i \in 1..Len(sets[k].nssai) : sets[k].nssai[i].sd = << >>})
                                + 5 * Cardinality({i \in 1..Len(sets[k].nssai) : sets[k].nssai[i].sd # << >>})
\* one-octet and two-octet length fields give different octets whenever there is a data set
UpuReadingsDiffer == sets # << >> => McUpuEncodeW(reg, ack, Mac, Ctr, ss, 1) # McUpuEncodeW(reg, ack, Mac, Ctr, ss, 2)
\* NEGATIVE CONTROL (must be violated): a reader of two-octet lengths cannot read the one-octet form
UpuOneOctetReadable == McUpuParse(McUpuEncodeW(reg, ack, Mac, Ctr, ss, 1)).ok
ASSUME McUpuLenOctets = 2
ASSUME McUpuEncode(TRUE, FALSE, Mac, Ctr, <<[ty |-> 2, body |-> <<1, 1>>]>>) = <<4>> \o Mac \o Ctr \o <<2, 0, 2, 1, 1>>
Emit == PrintT(ToJson([kind |-> "upu", reg |-> reg, ack |-> ack, mac |-> Mac, ctr |-> Ctr, sets |-> sets]))
=============================================================================
