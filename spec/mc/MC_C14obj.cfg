SPECIFICATION Spec
INVARIANTS GetIsFunctionOfContents PoolsSane PairEmit
PROPERTY GetKeepsContents
CHECK_DEADLOCK FALSE
