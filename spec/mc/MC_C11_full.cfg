SPECIFICATION Spec
CONSTANTS SqnArgs <- McSqn OvfArgs <- McOvf SetArgs <- McSetFull Starts <- All
INVARIANTS TypeOK Composed SetCommutes
PROPERTIES AddOneCarries AddOneIsSuccessor SetSQNKeepsOverflow SetOverflowKeepsSQN SetIsBoth
CHECK_DEADLOCK FALSE
