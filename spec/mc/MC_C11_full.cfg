SPECIFICATION Spec
CONSTANTS SqnArgs <- FullSqn OvfArgs <- FullOvf SetArgs <- FullSet Starts <- All
INVARIANTS TypeOK Composed SetCommutes
PROPERTIES AddOneCarries AddOneIsSuccessor SetSQNKeepsOverflow SetOverflowKeepsSQN SetIsBoth
CHECK_DEADLOCK FALSE
