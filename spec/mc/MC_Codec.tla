------------------------------ MODULE MC_Codec ------------------------------
(* Generator ("environment") + decoder machine.  The environment builds one input octet string per path
   by choosing, element by element, a slot, a declared-length class and a truncation class - i.e. it IS
   the generative grammar of the message tables, with its deliberate deviations (out-of-bounds length,
   truncation, unknown identifier, duplicate, reordering) named.  When the input is complete the decoder
   machine runs on it.  TLC checks on every path:
     C01  DTypeOK (no panic), DProgress, DAllocBound, termination (PROPERTY Terminates)
     C04  GrammarAgrees: Decode accepts iff the path stayed inside the grammar; WantRecovered: field values
     C02  RoundTrip: Decode(Encode(m)) = m for the message the path describes
     C03  FixedPoint / CanonicalExact on accepted inputs (incl. reordered, duplicated, unknown elements)
   and prints every complete input as JSON (the cases replayed into the real decoder). *)
EXTENDS NasMachine, Json, TLC
CONSTANTS MaxOpt,      \* optional elements per input
          MsgLo, MsgHi \* range of message indices (sharding)
VARIABLES mi, inp, gk, gphase, n, cut, bad, unk, want
gvars == <<mi, inp, gk, gphase, n, cut, bad, unk, want>>
vars == <<gvars, dvars>>
M == Msgs[mi]
Pat(p) == (p * 37 + 11) % 256
Fill(base, cnt) == [i \in 1..cnt |-> Pat(base + i)]
TypeMax(lsz) == IF lsz = 1 THEN 255 ELSE 65535
Cap(x) == IF x > 300 THEN 300 ELSE x
LenClasses(s) ==
  IF s.lsz = 0 THEN {s.max}
  ELSE IF s.lens # {} THEN s.lens \cup {l - 1 : l \in s.lens} \cup {l + 1 : l \in s.lens}
  ELSE {s.min - 1, s.min, s.min + 1, Cap((s.min + s.max) \div 2), Cap(s.max - 1), Cap(s.max), s.max + 1} \cap 0..TypeMax(s.lsz)
BodyLen(s, l) == IF s.lsz = 0 THEN s.max ELSE l
Emit(s, tagBytes, l, c) ==
   LET full == tagBytes \o LenBytes(s.lsz, l) \o Fill(Len(inp), BodyLen(s, l))
       hd == Len(tagBytes)
   IN CASE c = "none"  -> full
        [] c = "len"   -> SubSeq(full, 1, hd + s.lsz - 1)          \* cut inside the length field
        [] c = "body"  -> SubSeq(full, 1, Len(full) - 1)           \* one octet short
        [] c = "body1" -> SubSeq(full, 1, hd + s.lsz + 1)          \* cut inside the content
Cuts(s, l) == {"none"} \cup (IF s.lsz > 0 THEN {"len"} ELSE {})
                       \cup (IF BodyLen(s, l) > 0 THEN {"body"} ELSE {})
                       \cup (IF BodyLen(s, l) > 2 THEN {"body1"} ELSE {})
ValOf(s, iei, l) == [p |-> TRUE, iei |-> iei, len |-> (IF s.lsz = 0 THEN 0 ELSE l),
                     v |-> Store(s, Fill(Len(inp), BodyLen(s, l)))]
HdrByte(pos) == IF pos = 1 THEN (IF M.fam = "GSM" THEN EpdGsm ELSE EpdGmm)
                ELSE IF (M.fam = "GMM" /\ pos = 3) \/ (M.fam = "GSM" /\ pos = 4) THEN M.mt
                ELSE IF M.fam = "ENV" /\ pos = 2 THEN 2 ELSE 0
IsHdr(s) == s.lsz = 0 /\ s.max = 1 /\ Len(inp) < (IF M.fam = "GSM" THEN 4 ELSE 3)

GInit == /\ mi \in MsgLo..MsgHi /\ inp = <<>> /\ gk = 1 /\ gphase = "mand" /\ n = 0
         /\ cut = FALSE /\ bad = FALSE /\ unk = FALSE
         /\ want = [mand |-> <<>>, opt |-> NoOpt(Msgs[mi])]
GStepMand ==
  /\ gphase = "mand" /\ ~cut /\ ~bad
  /\ IF gk > Len(M.mand) THEN gphase' = "opt" /\ UNCHANGED <<mi, inp, gk, n, cut, bad, unk, want>>
     ELSE LET s == M.mand[gk] IN
          \E l \in LenClasses(s) : \E c \in Cuts(s, l) :
            /\ inp' = inp \o (IF IsHdr(s) /\ c = "none" THEN <<HdrByte(Len(inp) + 1)>> ELSE Emit(s, <<>>, l, c))
            /\ cut' = (c # "none")
            /\ bad' = ~LenOk(s, l)
            /\ want' = [want EXCEPT !.mand = Append(@, IF IsHdr(s) /\ c = "none"
                                                        THEN [p |-> TRUE, iei |-> 0, len |-> 0, v |-> <<HdrByte(Len(inp) + 1)>>]
                                                        ELSE ValOf(s, 0, l))]
            /\ gk' = gk + 1 /\ UNCHANGED <<mi, gphase, n, unk>>
GStepOpt ==
  /\ gphase = "opt" /\ ~cut /\ ~bad /\ n < MaxOpt
  /\ \/ \E j \in 1..Len(M.opt) : LET s == M.opt[j] IN
          IF s.half THEN LET b == s.iei * 16 + (Len(inp) % 16) IN
               /\ inp' = Append(inp, b) /\ want' = [want EXCEPT !.opt[j] = HalfVal(b)]
               /\ n' = n + 1 /\ UNCHANGED <<mi, gk, gphase, cut, bad, unk>>
          ELSE \E l \in LenClasses(s) : \E c \in Cuts(s, l) \cup {"tag"} :
               /\ inp' = inp \o (IF c = "tag" THEN <<s.iei>> ELSE Emit(s, <<s.iei>>, l, c))
               /\ cut' = (c # "none")
               /\ bad' = ~LenOk(s, l)
               /\ want' = [want EXCEPT !.opt[j] = ValOf(s, s.iei, l)]
               /\ n' = n + 1 /\ UNCHANGED <<mi, gk, gphase, unk>>
     \/ /\ inp' = Append(inp, 3) /\ unk' = TRUE                          \* an identifier no message defines
        /\ n' = n + 1 /\ UNCHANGED <<mi, gk, gphase, cut, bad, want>>
GFinish == /\ gphase \in {"mand", "opt"} /\ (gphase = "opt" \/ cut \/ bad)
           /\ gphase' = "run" /\ UNCHANGED <<mi, inp, gk, n, cut, bad, unk, want>>
           /\ DStart(mi, inp)
GRun == /\ gphase = "run" /\ DNext /\ UNCHANGED gvars
Init == GInit /\ DIdle
Next == \/ (GStepMand /\ UNCHANGED dvars) \/ (GStepOpt /\ UNCHANGED dvars) \/ GFinish \/ GRun
Spec == Init /\ [][Next]_vars /\ WF_vars(Next)

Done == gphase = "run" /\ DTerminated
InGrammar == ~cut /\ ~bad                        \* the path stayed inside the generative grammar
\* ---- C04 (model level)
GrammarAgrees == Done => ((dphase = "done") = InGrammar)
WantRecovered == (Done /\ InGrammar) => (dmand = want.mand /\ dopt = want.opt)
\* ---- C02 (model level): the message the path describes survives encode -> decode
RoundTrip == (Done /\ InGrammar) => (WellFormed(M, want) /\ LET d == Decode(M, Encode(M, want)) IN d.ok /\ d.mand = want.mand /\ d.opt = want.opt)
\* ---- C03 (model level)
ReEncode == (Done /\ dphase = "done") =>
              LET d1 == [mand |-> dmand, opt |-> dopt]
                  e1 == Encode(M, d1)
                  d2 == Decode(M, e1)
                  e2 == Encode(M, [mand |-> d2.mand, opt |-> d2.opt]) IN
              /\ d2.ok /\ d2.mand = d1.mand /\ d2.opt = d1.opt /\ e2 = e1
              /\ (Canonical(M, inp) => e1 = inp)
\* ---- C01 (model level)
Terminates == <>(gphase = "run" /\ DTerminated)
\* ---- generator channel
Out == Done => PrintT(ToJson([m |-> M.name, inp |-> inp, ok |-> (dphase = "done"), g |-> InGrammar, unk |-> unk, n |-> n,
                               w |-> IF InGrammar THEN want ELSE [mand |-> <<>>, opt |-> <<>>]]))
==============================================================================
