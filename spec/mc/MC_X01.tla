------------------------------ MODULE MC_X01 ------------------------------
(* Stage A for X01: the NAS secure channel on small moduli (SqnMod = 4, OvfMod = 2..3) so that SQN wrap,
   overflow carry and the wrap of the whole NAS COUNT are reachable.  Configurations:
     MC_X01         hostile network (drop, duplicate, reorder, bit flips, lost runs, mirror-direction wires), NIA # 0
     MC_X01_fifo    network that only delays, every start count, across carry and the full wrap: RoundTrip
     MC_X01_resync  at most SqnMod-1 counts lost in a row: nothing is ever rejected
     MC_X01_desync  one more (expected to FAIL NoReject: the documented boundary of the design)
     MC_X01_nia0    NIA0 (expected to FAIL TamperRejected / Authenticity / NoReplay: what is NOT guaranteed)
     MC_X01_wrap    sender runs through the end of the count space (expected to FAIL NoReplayEver) *)
EXTENDS NasSecureChannel
CtxSec  == [nia |-> 2, nea |-> 2, bearer |-> 1, dir |-> 0]
CtxNea0 == [nia |-> 1, nea |-> 0, bearer |-> 1, dir |-> 1]
CtxNia0 == [nia |-> 0, nea |-> 2, bearer |-> 1, dir |-> 0]
CtxNull == [nia |-> 0, nea |-> 0, bearer |-> 1, dir |-> 0]
BitsSmall == [hdr |-> {0}, mac |-> {0, 1}, sqn |-> {0, 1}, ct |-> {0, 1}]
EnvNone == {}
EnvSkip == {"Skip"}
EnvReplay == {"Dup", "Reorder", "Skip"}
AllCounts == 0..(M - 1)
NoCounts == {}
\* the same without the "until the count space is exhausted" proviso: fails once the sender wraps
NoReplayEver == \A i, j \in DOMAIN dlv : i < j => dlv[i].uid # dlv[j].uid
===========================================================================
