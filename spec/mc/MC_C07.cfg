SPECIFICATION Spec
CONSTANTS MaxBits = 72
INVARIANT ItemOK
CHECK_DEADLOCK FALSE
