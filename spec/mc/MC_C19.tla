---- MODULE MC_C19 ----
EXTENDS Concurrency
====
