SPECIFICATION Spec
CONSTANTS SqnMod = 4 OvfMod = 3 Ctx <- CtxNia0 Msgs = {1, 2} Starts = {0, 2} NetCap = 2 MaxSent = 2 EnvBudget = 2
          Env <- EnvAll Skips = {1} MaxLead = 100 AllowWrap = FALSE Bits <- BitsSmall ReflectCounts <- NoCounts RefuseWrap = FALSE
INVARIANTS TypeOK TamperRejectedP
CHECK_DEADLOCK FALSE
