----------------------------- MODULE MC_X03_build -----------------------------
(* X03, stage B, the SENDING side: messages a network builds with the library's own ENCODERS and a UE reads.
   A case names a message, its default mandatory part, and PARTS: for an element the encoder to call, its argument
   (the model value: texts, lists of records, numbers) and `want`, the readings Received must give for the octets the
   real encoders + PlainNasEncode produce - written from the VALUE (never through a decoder).  The driver
   (harness/cmd/received, case kind "build") calls the real encoder for every part, puts the result into the message,
   encodes, then receives the octets like any other input; Trace_X03 compares Received(octets) with `want` (class
   built-differs).  This binds the readings for which the library has no decoder (TAI list, service area list, LADN
   information, rejected NSSAI, network name, T3512 seconds, session AMBR rates) to the real code.
   One case per (message, element, value) + cases with every element present. *)
EXTENDS X03Cases, Json
VARIABLES bSel          \* <<message index, part index (0: all parts), value index>>

BW(a, v) == [a |-> a, v |-> v]
BV(arg, want) == [arg |-> arg, want |-> want]
BP(n, enc, vals) == [n |-> n, enc |-> enc, vals |-> vals]
BSn(x) == [sst |-> x.sst, sd |-> AL!SdText(x.sd)]
BSns(vs) == [i \in 1..Len(vs) |-> BSn(vs[i])]

BGuti == [i \in 1..3 |-> LET g == <<XGuti1, XGuti2, XGuti3>>[i] IN
            BV(AL!GutiToText(g), <<BW("text", XGutiTexts(g)), BW("ids", g.amf \o g.tmsi)>>)]
BTaiLists == [i \in 1..5 |-> LET ts == <<XTs00, XTs01, XTs10, XTs16, <<XT(XP2, 9)>> >>[i] IN BV(RxTais(ts), <<BW("list", RxTais(ts))>>)]
BNssai == [i \in 1..4 |-> LET vs == << <<XSn1, XSn2>>, <<XSn1>>, <<XSn2>>, XcRep(8, XSn2)>>[i] IN
             BV(BSns(vs), <<BW("list", [k \in 1..Len(vs) |-> RxMapOf(vs[k])])>>)]
BRejW(vs, cause) == [k \in 1..Len(vs) |-> [sst |-> vs[k].sst, sd |-> AL!SdText(vs[k].sd), cause |-> cause]]
BRej == [i \in 1..3 |-> LET p == << <<XSn1>>, <<>>, <<XSn2, XSn1>> >>[i]
                            t == << <<XSn2>>, <<XSn1>>, <<>> >>[i] IN
           BV([plmn |-> BSns(p), ta |-> BSns(t)], <<BW("list", BRejW(p, AL!CausePlmn) \o BRejW(t, AL!CauseRegArea))>>)]
BTacText(t) == AL!HexText(t.tac)
BSal == [i \in 1..3 |-> LET ts == <<XTs00, XTs01, <<XT(XP2, 9)>> >>[i]
                            allowed == <<1, 0, 1>>[i]
                            areas == IF i = 1 THEN << <<BTacText(ts[1])>>, <<BTacText(ts[2]), BTacText(ts[3])>> >>
                                     ELSE << [k \in 1..Len(ts) |-> BTacText(ts[k])] >> IN
           BV([mcc |-> AL!MccText(ts[1].plmn), mnc |-> AL!MncText(ts[1].plmn), allowed |-> allowed, areas |-> areas],
              <<BW("list", [na |-> 1 - allowed, tais |-> RxTais(ts), whole |-> <<>>])>>)]
BLadnJ(l) == [dnn |-> l.dnn, tais |-> RxTais(l.tais)]
BLadn == [i \in 1..2 |-> LET ls == << <<XLadn1>>, <<XLadn1, XLadn2>> >>[i] IN
            BV([k \in 1..Len(ls) |-> BLadnJ(ls[k])], <<BW("list", [k \in 1..Len(ls) |-> BLadnJ(ls[k])])>>)]
BName == [i \in 1..5 |-> LET nm == <<XN(9), XN(1), XN(7), XN(8), XN(26)>>[i] IN
            BV(nm, <<BW("name", nm), BW("fields", <<1, 0, 0, TR!SpareBits(Len(nm))>>), BW("text", TR!Pack7(nm))>>)]
BTz == [i \in 1..5 |-> LET q == <<8, 0, -1, 79, -48>>[i] IN BV(TR!ZoneText(q), <<BW("text", TR!ZoneText(q))>>)]
BDst == [i \in 1..3 |-> LET d == <<1, 0, 2>>[i] IN BV(TR!ZoneDstText(8, d), <<BW("text", TR!DstText(d))>>)]
BUt == [i \in 1..4 |-> LET s == <<XSt(2026, 10, 1, 19, 30, 59, 8), XSt(2000, 2, 29, 0, 0, 0, -48), XSt(2099, 12, 31, 23, 59, 59, 79), XSt(2024, 3, 1, 0, 14, 59, 1)>>[i]
                           t == TR!Instant(s) IN
          BV(<<s.y, s.mo, s.d, s.h, s.mi, s.s, s.q * 900>>, <<BW("time", <<s.y, s.mo, s.d, s.h, s.mi, s.s, s.q * 900, t[1], t[2]>>)>>)]
BT3512 == [i \in 1..8 |-> LET d == <<3600, 0, 2, 62, 60, 1800, 54000, 1116000>>[i] IN BV(d, <<BW("seconds", d)>>)]
BPsi == [i \in 1..3 |-> LET S == <<{1, 5}, {}, {0, 7, 8, 15}>>[i]
                            r == [k \in 1..16 |-> IF (k - 1) \in S THEN 1 ELSE 0] IN BV(r, <<BW("bools", r), BW("bits", r)>>)]
BAmbr == [i \in 1..3 |-> LET x == << <<100, "Mbps", 50, "Mbps">>, <<1, "Kbps", 65535, "Pbps">>, <<32768, "Gbps", 0, "Tbps">> >>[i] IN
            BV([dlv |-> x[1], dlu |-> x[2], ulv |-> x[3], ulu |-> x[4]],
               <<BW("rates", [dlv |-> x[1], dlu |-> <<1, TR!AmbrPrefixIndex(x[2])>>, ulv |-> x[3], ulu |-> <<1, TR!AmbrPrefixIndex(x[4])>>])>>)]
BSnssai == [i \in 1..3 |-> LET x == <<XSn2, XSn1, AL!Plain(255, <<255, 0, 171>>)>>[i] IN BV(BSn(x), <<BW("model", BSn(x))>>)]
BDnn == [i \in 1..3 |-> LET ls == << <<XL_internet>>, <<XL_ims, XL_mnc, XL_mcc, XL_gprs>>, <<<<97>>, <<98>>, <<99>>>> >>[i] IN
           BV(MV!McJoin(ls), <<BW("text", MV!McJoin(ls))>>)]
BOp(k, ip, mtu) == [k |-> k, ip |-> ip, mtu |-> mtu]
BPcoOps == << <<BOp("ReqDnsV4", <<>>, 0), BOp("ReqIpNas", <<>>, 0)>>, <<>>,
              <<BOp("DnsV4", <<8, 8, 4, 4>>, 0), BOp("Mtu", <<>>, 1500), BOp("DnsV6", <<32, 1, 72, 96, 72, 96, 0, 0, 0, 0, 0, 0, 0, 0, 136, 136>>, 0),
                BOp("PcscfV4", <<10, 0, 0, 1>>, 0), BOp("ReqDnsV6", <<>>, 0)>> >>
BPcoUnits(ops) == [k \in 1..Len(ops) |-> (CHOOSE r \in MV!McOutcomes(ops[k]) : TRUE).u]        \* these calls have exactly one outcome
BPco == [i \in 1..3 |-> BV(BPcoOps[i], <<BW("units", BPcoUnits(BPcoOps[i]))>>)]
BRules == [i \in 1..4 |-> LET rs == << <<XR1>>, <<XR2>>, <<XR1, XR3>>, <<XR5, XR4>> >>[i] IN BV(rs, <<BW("rules", rs)>>)]
BDescs == [i \in 1..3 |-> LET ds == << <<XD1>>, <<XD2>>, <<XD1, XD3, XD4>> >>[i] IN BV(ds, <<BW("descs", ds)>>)]
BSelected == [i \in 1..5 |-> LET ssc == 1 + (i % 3) IN
                BV([name |-> XcPduNames[i], ssc |-> ssc], <<BW("name", XcPduNames[i]), BW("fields", <<ssc, MV!McPduValue(XcPduNames[i])>>)>>)]

BMsgs == <<"ConfigurationUpdateCommand", "RegistrationAccept", "PDUSessionEstablishmentAccept">>
BParts(m) ==
  CASE m = "ConfigurationUpdateCommand" ->
         << BP("GUTI5G", "guti", BGuti), BP("TAIList", "tailist", BTaiLists), BP("AllowedNSSAI", "nssai", BNssai),
            BP("ServiceAreaList", "sal", BSal), BP("FullNameForNetwork", "fullname", BName), BP("ShortNameForNetwork", "shortname", BName),
            BP("LocalTimeZone", "tz", BTz), BP("UniversalTimeAndLocalTimeZone", "ut", BUt), BP("NetworkDaylightSavingTime", "dst", BDst),
            BP("LADNInformation", "ladninfo", BLadn), BP("ConfiguredNSSAI", "nssai", BNssai), BP("RejectedNSSAI", "rejnssai", BRej) >>
    [] m = "RegistrationAccept" ->
         << BP("GUTI5G", "guti", BGuti), BP("TAIList", "tailist", BTaiLists), BP("AllowedNSSAI", "nssai", BNssai),
            BP("RejectedNSSAI", "rejnssai", BRej), BP("ConfiguredNSSAI", "nssai", BNssai), BP("PDUSessionStatus", "psi", BPsi),
            BP("LADNInformation", "ladninfo", BLadn), BP("ServiceAreaList", "sal", BSal), BP("T3512Value", "t3512", BT3512) >>
    [] m = "PDUSessionEstablishmentAccept" ->
         << BP("SelectedSSCModeAndSelectedPDUSessionType", "selected", BSelected), BP("AuthorizedQosRules", "qosrules", BRules),
            BP("SessionAMBR", "ambr", BAmbr), BP("SNSSAI", "snssai", BSnssai), BP("AuthorizedQosFlowDescriptions", "qosdescs", BDescs),
            BP("ExtendedProtocolConfigurationOptions", "pco", BPco), BP("DNN", "dnn", BDnn) >>

BM(m) == Msgs[MsgByName(m)]
BIsMand(m, n) == RxSlotAt(BM(m), n)[1] = "mand"
\* the default mandatory part as slot values (the parts overwrite theirs)
BMandSlot(m, k) ==
  LET M == BM(m)
      s == M.mand[k]
      c == IF s.n = "ExtendedProtocolDiscriminator" THEN <<IF M.fam = "GSM" THEN EpdGsm ELSE EpdGmm>>
           ELSE IF k = (IF M.fam = "GSM" THEN 4 ELSE 3) THEN <<M.mt>>
           ELSE IF s.n = "SpareHalfOctetAndSecurityHeaderType" THEN <<0>>
           ELSE IF s.n = "PDUSessionID" THEN <<5>>
           ELSE XcRep(IF s.lsz = 0 THEN s.max ELSE s.min, 1)
  IN [p |-> TRUE, iei |-> 0, len |-> IF s.lsz = 0 THEN 0 ELSE Len(c), v |-> Store(s, c)]
BPartOut(m, part, vi) ==
  LET at == RxSlotAt(BM(m), part.n)
      s == IF at[1] = "mand" THEN BM(m).mand[at[2]] ELSE BM(m).opt[at[2]]
      val == part.vals[1 + ((vi - 1) % Len(part.vals))]
  IN [n |-> part.n, opt |-> at[1] = "opt", idx |-> at[2], iei |-> IF at[1] = "opt" THEN s.iei ELSE 0, cap |-> s.cap, lsz |-> s.lsz,
      enc |-> part.enc, arg |-> val.arg, want |-> [k \in 1..Len(val.want) |-> [n |-> part.n, a |-> val.want[k].a, v |-> val.want[k].v]]]
BCase(sel) ==
  LET m == BMsgs[sel[1]]
      parts == BParts(m)
      chosen == {i \in 1..Len(parts) : sel[2] = 0 \/ i = sel[2] \/ BIsMand(m, parts[i].n)}
      seq == SelectSeq([i \in 1..Len(parts) |-> i], LAMBDA i : i \in chosen)
  IN [k |-> "build",
      b |-> [m |-> m, mand |-> [k \in 1..Len(BM(m).mand) |-> BMandSlot(m, k)], opt |-> NoOpt(BM(m)),
             parts |-> [j \in 1..Len(seq) |-> BPartOut(m, parts[seq[j]], IF seq[j] = sel[2] \/ sel[2] = 0 THEN sel[3] ELSE 1)]]]

Init == bSel \in {<<mi, pi, vi>> : mi \in 1..Len(BMsgs), pi \in 0..12, vi \in 1..8} /\
        LET parts == BParts(BMsgs[bSel[1]]) IN
        /\ bSel[2] <= Len(parts)
        /\ IF bSel[2] = 0 THEN bSel[3] <= 3 ELSE bSel[3] <= Len(parts[bSel[2]].vals)
Next == UNCHANGED bSel
Spec == Init /\ [][Next]_bSel
Out == PrintT(ToJson(BCase(bSel)))
=============================================================================
