---------------------------- MODULE MC_C11_gen ----------------------------
(* Stage B generator for C11: the counter machine of NasCount with a history variable `last`
   naming the operation just performed, its arguments and the value before it.
   OneStep = TRUE : exactly one operation from every start value, so every distinct state is one
                    edge (source value, operation, arguments) of the window model; EmitEdge prints it.
   AddRun(k) is a macro step: k AddOne calls in a row with no read in between (the harness expands it).
   Reads (Get, SQN, Overflow) are steps like the others: the behaviours decide which reads happen and when.
   OneStep = FALSE: unrestricted walks for `-simulate file=...` (the behaviour files are read by
                    the harness and stepped through a real Count). *)
EXTENDS NasCount, Json, TLC
CONSTANT OneStep
VARIABLE last
gvars == <<c, last>>
WinOvf  == {0, 1, 2, 32767, 32768, 65534, 65535}
Window  == {o * 256 + s : o \in WinOvf, s \in 0..255}
McSqn   == {0, 1, 127, 128, 254, 255}
McOvf   == {0, 1, 255, 256, 32767, 32768, 65534, 65535}
McSet   == {<<0, 0>>, <<0, 255>>, <<1, 0>>, <<255, 255>>, <<256, 1>>, <<32767, 255>>, <<32768, 0>>, <<65535, 254>>, <<65535, 255>>}
\* fewer setter arguments for the random walks, so that increments, runs and reads are chosen often
SimSqn  == {0, 128, 255}
SimOvf  == {0, 32768, 65535}
SimSet  == {<<65535, 254>>, <<32767, 255>>}
RunLens == IF OneStep THEN {2, 3} ELSE {2, 3, 17}     \* longer runs (up to 300, across every boundary) are recorded by the driver
Rec(op, a, b) == [op |-> op, a |-> a, b |-> b, pre |-> c]
GInit == c \in Starts /\ last = [op |-> "Init", a |-> 0, b |-> 0, pre |-> 0]
GNext == /\ OneStep => last.op = "Init"
         /\ \/ \E p \in SetArgs : Set(p[1], p[2]) /\ last' = Rec("Set", p[1], p[2])
            \/ \E s \in SqnArgs : SetSQN(s) /\ last' = Rec("SetSQN", s, 0)
            \/ \E o \in OvfArgs : SetOverflow(o) /\ last' = Rec("SetOverflow", o, 0)
            \/ AddOne /\ last' = Rec("AddOne", 0, 0)
            \/ \E k \in RunLens : c' = AddRunF(c, k) /\ last' = Rec("AddRun", k, 0)     \* k increments with no read in between
            \/ \E r \in {"Get", "SQN", "Overflow"} : Read /\ last' = Rec(r, 0, 0)
GSpec == GInit /\ [][GNext]_gvars
\* the laws again, as state predicates on (last.pre, c)
StepOK == last.op # "Init" => c = Apply(last.op, last.a, last.b, last.pre)
EmitEdge == last.op = "Init" \/ PrintT(ToJson([op |-> last.op, a |-> last.a, b |-> last.b, pre |-> last.pre]))
============================================================================
