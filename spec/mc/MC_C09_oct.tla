---------------------------- MODULE MC_C09_oct ----------------------------
(* Stage A for C09, exhaustive part: the octet-level operators of IeLayout for EVERY shape of a bit
   field inside one octet (start bit s, width n <= s) over all 256 octet values and all 256
   argument values (Full) or the boundary arguments (quick), and for bit fields spanning two octets
   (the 10-bit shape of the table and three others) over all 65 536 contents (Full) or
   boundary first octets x all second octets.
   One state per (shape, contents, value); the laws are invariants. *)
EXTENDS IeLayout, TLC
CONSTANT Full
VARIABLES two, s, n, o1, o2, ph, v
vars == <<two, s, n, o1, o2, ph, v>>
Bnd == {0, 1, 2, 63, 64, 85, 127, 128, 170, 192, 254, 255}
TwoShapes == {<<8, 10>>, <<8, 16>>, <<4, 12>>, <<1, 9>>, <<6, 7>>}
Init == /\ ph = 0 /\ v = 0
        /\ \/ two = FALSE /\ s \in 1..8 /\ n \in 1..s /\ o1 \in 0..255 /\ o2 = 0
           \/ two = TRUE /\ (\E sh \in TwoShapes : s = sh[1] /\ n = sh[2]) /\ o1 \in (IF Full THEN 0..255 ELSE Bnd) /\ o2 \in 0..255
ArgVals == IF two THEN {0, 1, 2^n - 1, 2^n, 2^n + 1, 21845, 43690, 65535, 2^(n - 1), 2^(n - s) - 1, 2^(n - s)}
           ELSE IF Full THEN 0..255 ELSE {0, 1, 2^n - 1, 2^n % 256, 85, 170, 255}
Next == ph = 0 /\ ph' = 1 /\ v' \in ArgVals /\ UNCHANGED <<two, s, n, o1, o2>>
Spec == Init /\ [][Next]_vars

Bit(o, k) == (o \div 2^k) % 2          \* k = 0 least significant
\* ---- one octet
New1 == ReplaceBits(o1, s, n, v)
OneOctetLaws ==
  /\ New1 \in 0..255
  /\ ExtractBits(New1, s, n) = v % 2^n
  /\ \A k \in 0..7 : (k < s - n \/ k > s - 1) => Bit(New1, k) = Bit(o1, k)
  /\ \A k \in (s - n)..(s - 1) : Bit(New1, k) = Bit(v, k - (s - n))
  /\ ReplaceBits(o1, s, n, ExtractBits(o1, s, n)) = o1
  /\ ReplaceBits(New1, s, n, v) = New1
  /\ ExtractBits(o1, s, n) = GetBitsB(<<o1>>, 8 - s, n)
\* ---- two octets
Old2 == <<o1, o2>>
New2 == SetBits(Old2, 0, s, n, v % 2^n)
TwoOctetLaws ==
  /\ New2[1] \in 0..255 /\ New2[2] \in 0..255
  /\ GetBits(New2, 0, s, n) = v % 2^n
  /\ GetBits(Old2, 0, s, n) = GetBitsB(Old2, 8 - s, n)
  /\ New2 = SetBitsB(Old2, 8 - s, n, v % 2^n)
  /\ \A p \in 0..15 : (p < 8 - s \/ p > 8 - s + n - 1) => BitAt(New2, p) = BitAt(Old2, p)
  /\ SetBits(Old2, 0, s, n, GetBits(Old2, 0, s, n)) = Old2
  \* the field is the concatenation of the low s bits of the first octet and the high n-s bits of the second
  /\ GetBits(Old2, 0, s, n) = ExtractBits(o1, s, s) * 2^(n - s) + ExtractBits(o2, 8, n - s)
Laws == ph = 0 \/ (IF two THEN TwoOctetLaws ELSE OneOctetLaws)
============================================================================
