---------------------------- MODULE MC_C18_hist ----------------------------
(* C18 histories: TLC explores UePolicyHistory exhaustively (initial structures x which level grows
   x where x 0/1/2 growth steps x encode / adopt in between), checks its laws, and prints every
   history that ends with an encoding for replay on ONE live object of the real code. *)
EXTENDS UePolicyHistory, Json
EmitHistory == lastop = "enc" => PrintT(ToJson([k |-> "hist", kind |-> kind, val |-> val0, ops |-> hist]))
=============================================================================
