SPECIFICATION Spec
INVARIANTS Sane Emit
CHECK_DEADLOCK FALSE
