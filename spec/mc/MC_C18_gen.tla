----------------------------- MODULE MC_C18_gen -----------------------------
(* Stage B for C18: TLC chooses the cases that are replayed on the real code and prints them as
   JSON (one state = one case descriptor):
     cmd / rej / cpl / unk   a message as the API is given it (st) + the malformed inputs derived
                             from the specification's encoding of it: for every level of the
                             grammar a job (entry points, base octets, prefixes `cuts`, length
                             fields replaced `patches` = <<0-based offset, value>>)
     plmn                    a row of (MCC, MNC) pairs for SetPlmnDigit
   Shapes: 0..3 sublists x 0..3 instructions x 0..3 parts, uniform or ragged (counts and content
   classes vary with the position), contents of 0 / 1 / 300 octets; command with and without
   classmark, complete, reject with 0..3 subresults x 0..3 results, unknown message types.
   The positions of the length fields and the encodings come from UePolicy itself. *)
EXTENDS UePolicy, Json
CONSTANTS Thorough, CutAll, BigLimit
VARIABLE d

Tup(f, n) == SubSeq(f, 1, n)
SetToSortedSeq(S) ==       \* ascending
  LET RECURSIVE R(_)
      R(T) == IF T = {} THEN << >> ELSE LET m == CHOOSE x \in T : \A y \in T : x <= y IN << m >> \o R(T \ {m})
  IN R(S)

\* ---- structures
Cnt(n, idx, rag) == IF rag = 0 THEN n ELSE (n + idx) % 4
Fill(n, k) == Tup([i \in 1..n |-> (i * 7 + k) % 256], n)
Content(cc, k) == CASE cc = 0 -> << >> [] cc = 1 -> << (37 * k + 1) % 256 >> [] OTHER -> Fill(300, k)
Plmns == << << 208, 93 >>, << 310, 410 >>, << 999, 10 >>, << 100, 999 >> >>
MkParts(np, cc, rag, k) ==
  Tup([j \in 1..np |-> [ty |-> ((j + k) % 4) + 1, c |-> Content(IF rag = 0 THEN cc ELSE (cc + j) % 3, j + k)]], np)
MkIns(ni, np, cc, rag, s) ==
  Tup([i \in 1..ni |-> [upsc |-> (4096 * s + 255 * i + 1) % 65536, parts |-> MkParts(Cnt(np, i + s, rag), cc, rag, i + s)]], ni)
MkSubs(ns, ni, np, cc, rag) ==
  Tup([s \in 1..ns |-> [mcc |-> Plmns[((s - 1) % 4) + 1][1], mnc |-> Plmns[((s - 1) % 4) + 1][2], ins |-> MkIns(Cnt(ni, s, rag), np, cc, rag, s)]], ns)
MkRs(nr, s) == Tup([i \in 1..nr |-> [upsc |-> (4096 * s + i) % 65536, ord |-> i - 1, cause |-> UeCauseUnspecified]], nr)
MkSrs(ns, nr, rag) == Tup([s \in 1..ns |-> [mcc |-> Plmns[((s - 1) % 4) + 1][1], mnc |-> Plmns[((s - 1) % 4) + 1][2], rs |-> MkRs(Cnt(nr, s, rag), s)]], ns)
St(pti, type, iei, subs, srs, cm) == [pti |-> pti, type |-> type, iei |-> iei, subs |-> subs, srs |-> srs, cm |-> cm]

\* ---- the specification's own value of an st (PLMN octets per TS 24.008)
RECURSIVE StdSubs(_)
StdSubs(ss) == IF ss = << >> THEN << >>
               ELSE << [plmn |-> UePlmnToOctets(Head(ss).mcc, Head(ss).mnc), ins |-> Head(ss).ins] >> \o StdSubs(Tail(ss))
RECURSIVE StdSrs(_)
StdSrs(ss) == IF ss = << >> THEN << >>
              ELSE << [plmn |-> UePlmnToOctets(Head(ss).mcc, Head(ss).mnc), rs |-> Head(ss).rs] >> \o StdSrs(Tail(ss))
StdMsg(st) == UeMsg(st.pti, st.type, st.iei, StdSubs(st.subs), StdSrs(st.srs), st.cm)

\* ---- malformed inputs
MutVals(o) == {v \in {o - 1, o + 1, 0, 1, 2, 65535} : v >= 0 /\ v <= 65535}
Cuts(b, lp) == LET n == Len(b) IN
  SetToSortedSeq(IF n <= CutAll THEN 0..n
                 ELSE {c \in 0..n : \E p \in lp \cup {1, n + 1} : c - (p - 1) \in (-1)..4})
BoundaryCuts(b, lp) == LET n == Len(b) IN
  SetToSortedSeq({c \in 0..n : \E p \in lp \cup {1, n + 1} : c - (p - 1) \in (-1)..3})
Patches(b, lp) == LET ps == SetToSortedSeq(lp) IN
  LET RECURSIVE R(_)
      R(q) == IF q = << >> THEN << >>
              ELSE LET p == Head(q) vs == SetToSortedSeq(MutVals(UeU16(b, p))) IN
                   Tup([i \in 1..Len(vs) |-> << p - 1, vs[i] >>], Len(vs)) \o R(Tail(q))
  IN R(ps)
\* long encodings (300-octet contents): boundary prefixes only; beyond BigLimit octets only the
\* first and last length field are replaced and the prefixes around them tried
Trim(b, lp) == IF Len(b) <= BigLimit \/ lp = {} THEN lp
               ELSE {CHOOSE p \in lp : \A q \in lp : p <= q, CHOOSE p \in lp : \A q \in lp : p >= q}
Job(ops, b, all, lp) ==
  LET tl == Trim(b, lp) IN
  [ops |-> ops, base |-> b, cuts |-> IF all THEN Cuts(b, tl) ELSE BoundaryCuts(b, tl), patches |-> Patches(b, tl)]
Shift(S, k) == {p + k : p \in S}

CmdCase(st) ==
  LET m == StdMsg(st)
      msg == UeMarshalMsg(m)
      content == UeMarshalSubs(m.subs)
      ie == UeMarshalIE(m.iei, content)
      lpc == UeLenPosSubs(m.subs, 1)
      j1 == << Job(<< "DecodeMsg" >>, msg, TRUE, UeLenPosMsg(m)),
               Job(<< "ListUnmarshal" >>, ie, FALSE, {2} \cup Shift(lpc, 3)),
               Job(<< "ContentUnmarshal" >>, content, TRUE, lpc) >>
      j2 == IF m.subs # << >> /\ m.subs[1].ins # << >>
            THEN LET is == m.subs[1].ins b == UeMarshalInstrs(is) lp == UeLenPosInstrs(is, 1) IN
                 << Job(<< "InstrsUnmarshal" >>, b, TRUE, lp) >>
                 \o (IF is[1].parts # << >>
                     THEN LET ps == is[1].parts b2 == UeMarshalParts(ps) lp2 == UeLenPosParts(ps, 1) IN
                          << Job(<< "PartsUnmarshal" >>, b2, TRUE, lp2) >>
                     ELSE << >>)
            ELSE << >>
  IN [k |-> "build", st |-> st, jobs |-> j1 \o j2]

RejCase(st) ==
  LET m == StdMsg(st)
      msg == UeMarshalMsg(m)
      content == UeMarshalSubRess(m.srs)
      ie == UeMarshalIE(m.iei, content)
      lpc == UeLenPosSubRess(m.srs, 1)
      j1 == << Job(<< "DecodeMsg" >>, msg, TRUE, UeLenPosMsg(m)),
               Job(<< "ResultUnmarshal" >>, ie, FALSE, {2} \cup Shift(lpc, 3)),
               Job(<< "RContentUnmarshal" >>, content, TRUE, lpc) >>
      j2 == IF m.srs # << >> /\ m.srs[1].rs # << >>
            THEN LET b == UeMarshalRess(m.srs[1].rs) IN << Job(<< "ResultsUnmarshal" >>, b, TRUE, {}) >>
            ELSE << >>
  IN [k |-> "build", st |-> st, jobs |-> j1 \o j2]

\* a message of another type: header + something that looks like an IE
OtherCase(pti, t) ==
  LET b == << pti, t, 9, 0, 5, 0, 3, 2, 248, 57, 66, 2, 1, 0 >> IN
  [k |-> "build", st |-> St(pti, t, 0, << >>, << >>, << >>),
   jobs |-> << Job(<< "DecodeMsg" >>, b, TRUE, {4, 6}) >>]

\* ---- PLMN rows: the case structure of the codec is per decimal digit and MNC < 100 / >= 100
BoundaryMnc == {0, 1, 9, 10, 11, 12, 19, 20, 21, 89, 90, 98, 99, 100, 101, 102, 109, 110, 111, 120, 123, 199, 200, 210, 321, 899, 900, 909, 910, 989, 990, 998, 999, 1000}
BoundaryMcc == {0, 1, 9, 10, 98, 99, 100, 101, 102, 109, 110, 111, 120, 123, 199, 200, 208, 210, 310, 321, 460, 802, 899, 900, 901, 909, 910, 989, 990, 998, 999, 1000}
Which(i) == IF i = 0 THEN "sub" ELSE "res"
PlmnCase(w, ax, fixed) ==
  [k |-> "plmn", which |-> Which(w), axis |-> IF ax = 0 THEN "mcc" ELSE "mnc", fixed |-> fixed,
   vary |-> IF ax = 0 THEN (IF Thorough THEN Tup([i \in 1..1001 |-> i - 1], 1001) ELSE SetToSortedSeq(BoundaryMnc))
            ELSE SetToSortedSeq(BoundaryMcc)]

\* ---- descriptors <<kind, a, b, c, d, e>>
N03 == 0..3
CmdShapes ==
  {<< "cmd", ns, ni, np, cc, 0 >> : ns \in N03, ni \in N03, np \in N03, cc \in {0, 1}}
  \cup {<< "cmd", ns, ni, np, 1, 1 >> : ns \in 1..3, ni \in N03, np \in N03}
  \cup {<< "cmd", 1, 1, 1, 2, 0 >>, << "cmd", 2, 2, 2, 2, 0 >>, << "cmd", 3, 3, 3, 2, 0 >>, << "cmd", 1, 1, 3, 2, 0 >>, << "cmd", 2, 2, 2, 2, 1 >>}
  \cup (IF Thorough THEN {<< "cmd", ns, ni, np, 2, rag >> : ns \in 1..3, ni \in 1..3, np \in 1..3, rag \in {0, 1}} ELSE {})
  \* wide shapes: many entries at ONE level of the nesting (8 / 9 / 17 / 33: around the sizes at which an implementation that
  \* batches, pre-sizes or switches representation changes its path)
  \cup {<< "cmd", 8, 1, 1, 1, 0 >>, << "cmd", 9, 1, 1, 1, 0 >>, << "cmd", 17, 1, 0, 1, 0 >>,
        << "cmd", 1, 8, 1, 1, 0 >>, << "cmd", 1, 9, 1, 1, 0 >>, << "cmd", 1, 17, 1, 1, 0 >>, << "cmd", 1, 33, 0, 1, 0 >>,
        << "cmd", 1, 1, 8, 1, 0 >>, << "cmd", 1, 1, 9, 1, 0 >>, << "cmd", 1, 1, 17, 1, 0 >>, << "cmd", 2, 9, 2, 1, 0 >>}
  \cup (IF Thorough THEN {<< "cmd", 33, 1, 1, 1, 0 >>, << "cmd", 1, 65, 1, 1, 0 >>, << "cmd", 1, 1, 33, 1, 0 >>, << "cmd", 3, 17, 3, 1, 0 >>} ELSE {})
\* degenerate shapes (no sublist: the inner counts do not matter) are kept once
Canon(x) == IF x[1] = "cmd" /\ x[2] = 0 /\ x[6] = 0 THEN << "cmd", 0, 0, 0, 0, 0 >>
            ELSE IF x[1] = "cmd" /\ x[3] = 0 /\ x[6] = 0 THEN << "cmd", x[2], 0, 0, 0, 0 >>
            ELSE IF x[1] = "cmd" /\ x[4] = 0 /\ x[6] = 0 THEN << "cmd", x[2], x[3], 0, 0, 0 >>
            ELSE x
Descs ==
  {Canon(x) : x \in CmdShapes}
  \cup {<< "rej", ns, nr, 0, 0, rag >> : ns \in N03, nr \in N03, rag \in {0, 1}}
  \cup {<< "rej", 8, 1, 0, 0, 0 >>, << "rej", 9, 1, 0, 0, 0 >>, << "rej", 17, 2, 0, 0, 0 >>,
        << "rej", 1, 8, 0, 0, 0 >>, << "rej", 1, 9, 0, 0, 0 >>, << "rej", 1, 17, 0, 0, 0 >>, << "rej", 2, 33, 0, 0, 0 >>}
  \cup {<< "cpl", 0, 0, 0, 0, 0 >>}
  \cup {<< "unk", t, 0, 0, 0, 0 >> : t \in {0, 4, 5, 6, 7, 128, 255}}
  \cup {<< "plmn", w, 0, mcc, 0, 0 >> : w \in {0, 1}, mcc \in 100..999}
  \cup {<< "plmn", w, 0, mcc, 0, 0 >> : w \in {0, 1}, mcc \in {0, 1, 98, 99, 1000}}
  \cup {<< "plmn", w, 1, mnc, 0, 0 >> : w \in {0, 1}, mnc \in 9..1000}

CaseOf(x) ==
  CASE x[1] = "cmd" -> CmdCase(St((16 * x[2] + x[3] + 1) % 256, 1, (200 + x[4]) % 256, MkSubs(x[2], x[3], x[4], x[5], x[6]), << >>,
                                  IF x[6] = 1 \/ (x[2] + x[3]) % 2 = 1 THEN << 66, x[4] % 2 >> ELSE << >>))
    [] x[1] = "rej" -> RejCase(St(32 + x[2], 3, (100 + x[3]) % 256, << >>, MkSrs(x[2], x[3], x[6]), << >>))
    [] x[1] = "cpl" -> [k |-> "build", st |-> St(7, 2, 0, << >>, << >>, << >>),
                        jobs |-> << Job(<< "DecodeMsg" >>, << 7, 2, 1, 0, 3 >>, TRUE, {}) >>]
    [] x[1] = "unk" -> OtherCase(3, x[2])
    [] x[1] = "plmn" -> PlmnCase(x[2], x[3], x[4])

Init == d \in Descs
Next == UNCHANGED d
Spec == Init /\ [][Next]_d
Emit == PrintT(ToJson(CaseOf(d)))
\* the generated values are values the API can be given (a descriptor that leaves an octet's range is the generator's error)
GenSane == LET cs == CaseOf(d) IN cs.k = "build" => (cs.st.pti \in 0..255 /\ cs.st.type \in 0..255 /\ cs.st.iei \in 0..255)
=============================================================================
