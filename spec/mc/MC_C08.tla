------------------------------- MODULE MC_C08 -------------------------------
(* Stage A for C08: SecurityApi model-checked exhaustively on small constants.
   MC_C08.cfg       laws: 2 cells, every payload over {0,1} of length <= 2 (and nil), algorithms 0,1,2 and an unknown
                    one, two keys, valid and invalid bearer / direction, every keystream function on up to 2 points.
   MC_C08_guard.cfg guards: one cell, boundary values of algorithm (0..4, 255), bearer (0, 31, 32, 255) and
                    direction (0, 1, 2, 255).
   MC_C08_fresh.cfg result cells: one payload cell, the caller holds up to 2 returned MACs, writes into them, releases them.
   MC_C08_sim.cfg   (stage B) random walks of the same machine with more values; the walks are replayed on real buffers. *)
EXTENDS SecurityApi
AllPats == {<<a, b>> : a \in Sym, b \in Sym}
Pats3 == {<<a, b, c>> : a \in Sym, b \in Sym, c \in Sym}
OnePat == {<<a>> : a \in Sym}
TwoMacs == {<<0, 0, 0, 0>>, <<1, 0, 1, 1>>}
==============================================================================
