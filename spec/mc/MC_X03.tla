------------------------------- MODULE MC_X03 -------------------------------
(* X03, stages A and B: the generative grammar of the twelve bound messages with SEMANTICALLY MEANINGFUL element
   contents.  A path chooses a message, the contents of its mandatory bound elements (X03Cases), then appends
   optional elements one by one, in any order, repeated or not: a bound element with one of its cases, an
   unbound element with filler contents, or an identifier no message defines.  Every state is a complete input.
   TLC checks on every state (stage A):
     XTotal   Received(input) is DEFINED and well typed (no reader is applied outside its domain - TLC would stop
              with an evaluation error), and the message is accepted exactly when no element's length is out of bounds
     XOwn     locality I: every reading of Received(input) is the reader applied to the case chosen for ITS OWN element
              (the last occurrence), whatever else the message carries - absent elements read as absent
     XLocal   locality II, on octets: replacing one content octet of one element leaves the message accepted and
              every reading of every OTHER element unchanged
     XRound   end-to-end round trip: for every element whose contents were produced from a well-formed value by the
              specification's encoders, Received reads back exactly the texts / lists / bitmaps of that value
   and prints every state as a case for the real code (stage B, Gen = TRUE; -simulate for long paths). *)
EXTENDS X03Cases, Json, TLC
CONSTANTS MaxOpt,        \* optional elements per path
          MsgLo, MsgHi,  \* range of message indices in XmMsgs (sharding)
          AllDeep,       \* TRUE: every case at every depth, from every initial state; FALSE: representatives after the first element
          Local,         \* check XLocal
          Gen            \* print cases
VARIABLES gMsg, gInp, gN, gWant, gBad, gWild, gUnk
vars == <<gMsg, gInp, gN, gWant, gBad, gWild, gUnk>>

XmMsgs == <<"ConfigurationUpdateCommand", "DLNASTransport", "DeregistrationRequestUEOriginatingDeregistration", "IdentityResponse",
            "PDUSessionEstablishmentAccept", "PDUSessionEstablishmentRequest", "PDUSessionModificationCommand", "RegistrationAccept",
            "RegistrationRequest", "ServiceAccept", "ServiceRequest", "ULNASTransport">>
ASSUME {XmMsgs[i] : i \in 1..Len(XmMsgs)} = RxMsgNames

XmM(name) == Msgs[MsgByName(name)]
XmRowOf(name, sn) == LET rows == RxRows(name) IN
                     IF \E i \in 1..Len(rows) : rows[i].s = sn THEN CHOOSE i \in 1..Len(rows) : rows[i].s = sn ELSE 0
XmCasesOf(row) == XcCases(row.r, row.s)
XmCase(name, i, k) == XmCasesOf(RxRows(name)[i])[k]
XmMtPos(M) == IF M.fam = "GSM" THEN 4 ELSE 3
XmFill(s) == IF s.lsz = 0 THEN XcRep(s.max, 1) ELSE LenBytes(s.lsz, s.min) \o XcRep(s.min, 1)
XmBody(s, c) == IF s.lsz = 0 THEN c ELSE LenBytes(s.lsz, Len(c)) \o c
XmFits(s, c) == /\ s.lsz = 1 => Len(c) <= 255
                /\ s.half => (Len(c) = 1 /\ c[1] \in 0..15)
XmBad(s, c)  == s.lsz > 0 /\ ~LenOk(s, Len(c))                        \* the decoder must refuse the message
XmWild(s, c) == s.lsz = 0 /\ ~s.half /\ Len(c) # s.max                \* a fixed-size element of another size: the framing is lost
XmStored(s, cs) == IF s.half THEN <<16 * s.iei + cs.c[1]>> ELSE cs.c  \* the contents the receiver's reader is applied to

\* the mandatory part for the chosen cases
RECURSIVE XmMand(_, _, _)
XmMand(name, w, k) ==
  LET M == XmM(name) IN
  IF k > Len(M.mand) THEN <<>>
  ELSE LET s == M.mand[k]
           ri == XmRowOf(name, s.n)
           here == IF s.n = "ExtendedProtocolDiscriminator" THEN <<IF M.fam = "GSM" THEN EpdGsm ELSE EpdGmm>>
                   ELSE IF k = XmMtPos(M) THEN <<M.mt>>
                   ELSE IF s.n = "SpareHalfOctetAndSecurityHeaderType" THEN <<0>>
                   ELSE IF s.n = "PTI" THEN <<1>>
                   ELSE IF ri # 0 THEN XmBody(s, XmCase(name, ri, w[ri]).c)
                   ELSE XmFill(s)
       IN here \o XmMand(name, w, k + 1)
XmMandRows(name) == {i \in 1..Len(RxRows(name)) : RxSlotAt(XmM(name), RxRows(name)[i].s)[1] = "mand"}
XmMandFlag(name, w, P(_, _)) == \E i \in XmMandRows(name) :
                                  LET s == XmM(name).mand[RxSlotAt(XmM(name), RxRows(name)[i].s)[2]] IN P(s, XmCase(name, i, w[i]).c)
XmDefaultWant(name) == [i \in 1..Len(RxRows(name)) |-> IF i \in XmMandRows(name) THEN 1 ELSE 0]
XmIsDefault == \A i \in XmMandRows(gMsg) : gWant[i] = 1

Init ==
  \E mi \in MsgLo..MsgHi : LET name == XmMsgs[mi] IN
  \E vary \in XmMandRows(name) \cup {0} :
  \E k \in (IF vary = 0 THEN {1} ELSE 1..Len(XmCasesOf(RxRows(name)[vary]))) :
     LET w == IF vary = 0 THEN XmDefaultWant(name) ELSE [XmDefaultWant(name) EXCEPT ![vary] = k] IN
     /\ (vary # 0 => LET s == XmM(name).mand[RxSlotAt(XmM(name), RxRows(name)[vary].s)[2]] IN XmFits(s, XmCase(name, vary, k).c))
     /\ gMsg = name /\ gWant = w /\ gInp = XmMand(name, w, 1) /\ gN = 0 /\ gUnk = FALSE
     /\ gBad = XmMandFlag(name, w, XmBad) /\ gWild = XmMandFlag(name, w, XmWild)

\* representatives after the first optional element: the default, one more well-formed case, the first malformed one
XmSel(cases, depth) ==
  IF depth = 0 \/ AllDeep THEN 1..Len(cases)
  ELSE {1, 2} \cup (IF \E k \in 1..Len(cases) : ~cases[k].wf THEN {CHOOSE k \in 1..Len(cases) : ~cases[k].wf /\ \A j \in 1..(k - 1) : cases[j].wf} ELSE {})
StepOpt ==
  /\ gN < MaxOpt /\ ~gBad /\ ~gWild /\ (AllDeep \/ XmIsDefault)
  /\ LET M == XmM(gMsg) IN
     \/ \E j \in 1..Len(M.opt) :
          LET s == M.opt[j]
              ri == XmRowOf(gMsg, s.n) IN
          IF ri # 0 THEN
             \E k \in XmSel(XmCasesOf(RxRows(gMsg)[ri]), gN) :
               LET c == XmCase(gMsg, ri, k).c IN
               /\ XmFits(s, c)
               /\ gInp' = gInp \o (IF s.half THEN <<16 * s.iei + c[1]>> ELSE <<s.iei>> \o XmBody(s, c))
               /\ gWant' = [gWant EXCEPT ![ri] = k]
               /\ gBad' = XmBad(s, c) /\ gWild' = XmWild(s, c) /\ UNCHANGED gUnk
          ELSE /\ gInp' = gInp \o (IF s.half THEN <<16 * s.iei + 1>> ELSE <<s.iei>> \o XmFill(s))
               /\ UNCHANGED <<gWant, gBad, gWild, gUnk>>
     \/ /\ gInp' = Append(gInp, 3) /\ gUnk' = TRUE /\ UNCHANGED <<gWant, gBad, gWild>>       \* an identifier no message defines
  /\ gN' = gN + 1 /\ UNCHANGED gMsg
Next == StepOpt
Spec == Init /\ [][Next]_vars

\* ------------------------------------------------------------------ the laws
\* (Received(gInp) is bound by LET in every law: a definition that depends on a variable is re-evaluated at every use)
XTotal == LET R == Received(gInp) IN
          /\ RxTypeOK(R)
          /\ ~gWild => (R.ok = ~gBad /\ (R.ok => R.msg = gMsg))
XmOwnRow(i) ==
  LET row == RxRows(gMsg)[i]
      at == RxSlotAt(XmM(gMsg), row.s)
      s == IF at[1] = "mand" THEN XmM(gMsg).mand[at[2]] ELSE XmM(gMsg).opt[at[2]]
  IN RxTag(row.s, IF gWant[i] = 0 THEN RxAbsent(row.r) ELSE RxRead(row.r, row.s, XmStored(s, XmCase(gMsg, i, gWant[i]))))
XOwn == (~gWild /\ ~gBad) => Received(gInp).f = RxFlat([i \in 1..Len(RxRows(gMsg)) |-> XmOwnRow(i)])
XRound == (~gWild /\ ~gBad) =>
            LET f == Received(gInp).f
                rows == RxRows(gMsg) IN
            \A i \in 1..Len(rows) :
              gWant[i] # 0 =>
                 LET cs == XmCase(gMsg, i, gWant[i]) IN
                 cs.wf => \A e \in 1..Len(cs.x) :
                             \E j \in 1..Len(f) : f[j].n = rows[i].s /\ f[j].a = cs.x[e].a /\ f[j].st = "val" /\ f[j].v = cs.x[e].v

\* content spans of the elements of an ACCEPTED input, as the decoder walks them: [n element, lo, hi]
RECURSIVE XmMandSpans(_, _, _, _, _)
XmMandSpans(b, pos, M, k, acc) ==
  IF k > Len(M.mand) THEN [pos |-> pos, sp |-> acc]
  ELSE LET s == M.mand[k]
           r == Body(b, pos, s, 0)
       IN XmMandSpans(b, r.pos, M, k + 1, IF k = 1 \/ k = XmMtPos(M) THEN acc ELSE acc \cup {[n |-> s.n, lo |-> pos + s.lsz, hi |-> r.pos - 1]})
RECURSIVE XmOptSpans(_, _, _, _)
XmOptSpans(b, pos, M, acc) ==
  IF pos > Len(b) THEN acc
  ELSE LET t == b[pos]  ks == Match(M, TagOf(t)) IN
       IF ks = {} THEN XmOptSpans(b, pos + 1, M, acc)
       ELSE LET s == M.opt[First(ks)] IN
            IF s.half THEN XmOptSpans(b, pos + 1, M, acc)
            ELSE LET r == Body(b, pos + 1, s, t) IN
                 XmOptSpans(b, r.pos, M, acc \cup {[n |-> s.n, lo |-> pos + 1 + s.lsz, hi |-> r.pos - 1]})
XmSpans(b, M) == LET m == XmMandSpans(b, 1, M, 1, {}) IN XmOptSpans(b, m.pos, M, m.sp)
XmProbe(sp) == {p \in {sp.lo, sp.lo + 1, sp.hi} : p >= sp.lo /\ p <= sp.hi}
XLocal == (Local /\ ~gWild /\ ~gBad) =>
            LET R == Received(gInp) IN
            \A sp \in XmSpans(gInp, XmM(gMsg)) : \A p \in XmProbe(sp) :
               LET R2 == Received([gInp EXCEPT ![p] = (gInp[p] + 129) % 256]) IN
               /\ R2.ok /\ R2.msg = R.msg /\ Len(R2.f) = Len(R.f)
               /\ \A j \in 1..Len(R.f) : R.f[j].n # sp.n => R2.f[j] = R.f[j]

\* negative controls (must be VIOLATED: the laws above are not vacuous)
XNeverOpen == LET R == Received(gInp) IN \A j \in 1..Len(R.f) : R.f[j].st # "open"        \* malformed contents reach the readers
XNeverRefused == ~gBad                                                                 \* out-of-bounds lengths reach the decoder
XNeverTwo == \A i \in 1..Len(gWant) : \A j \in 1..Len(gWant) : (gWant[i] # 0 /\ gWant[j] # 0 /\ i # j) => gN = 0   \* two bound elements in one message

\* ------------------------------------------------------------------ generator channel
Out == Gen => PrintT(ToJson([m |-> gMsg, inp |-> gInp, ok |-> (~gBad /\ ~gWild), n |-> gN]))
=============================================================================
