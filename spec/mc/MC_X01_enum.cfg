INIT GInit
NEXT EnumNext
CONSTANTS SqnMod = 256 OvfMod = 65536 Ctx <- CtxGen Msgs = {0, 7} Starts = {254} NetCap = 2
          MaxSent = 3 EnvBudget = 2 Env <- EnvAll Skips = {255, 256} MaxLead = 16777216 AllowWrap = TRUE
          Bits <- BitsEnum ReflectCounts <- NoCounts RefuseWrap = FALSE Depth = 4
INVARIANT PrintLeaf
CHECK_DEADLOCK FALSE
