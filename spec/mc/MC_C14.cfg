SPECIFICATION Spec
CONSTANTS MaxLen = 4 MaxFixed = 3 MaxText = 4
INVARIANTS OffsetInBounds BigStepAgrees ClassTotal NssaiSanity
PROPERTIES MeasureDecreases Terminates
CHECK_DEADLOCK FALSE
