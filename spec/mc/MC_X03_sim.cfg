SPECIFICATION Spec
CONSTANTS MaxOpt = 6 MsgLo = 1 MsgHi = 12 AllDeep = TRUE Local = FALSE Gen = FALSE
CHECK_DEADLOCK FALSE
