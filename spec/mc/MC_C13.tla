---- MODULE MC_C13 ----
(* Stage A for C13: the laws of AreaLists.tla on exhaustively enumerated domains (enumeration tree as in MC_C12).
     snssai  all 256 SST x SD forms x mapped-SST forms x mapped-SD forms; every non-listed length is rejected
     nssai   every list of 1..NssaiDepth entries over one entry of each of the five lengths, cyclic lists of 5..8 entries;
             dropping the last octet or injecting a wrong length is rejected
     rej     every list of 0..3 entries over SST x SD form x cause
     tai     EVERY list of 1..TaiDepth TAIs over 2 PLMNs x 3 TACs in every legal encoding (types 00, 01, 10, every split
             into two partial lists); lists of 1..16 TAIs over 1..3 PLMNs with consecutive / scattered TACs
     sal     the same through the service-area decoder, both allowed types, type 11, mixed allowed types rejected
     ladn    DNN lengths 1..100 x TAI lists x encodings; two LADNs in a row; LADN indication lists of 0..3 DNNs *)
EXTENDS AreaLists, TLC
CONSTANTS NssaiDepth, TaiDepth
VARIABLES fam, x
vars == <<fam, x>>

P(mcc, mnc) == [mcc |-> mcc, mnc |-> mnc]
Pl == << P(<<2,0,8>>, <<9,3>>), P(<<4,6,6>>, <<0,1,1>>), P(<<0,0,1>>, <<0,1>>) >>
SdB   == << <<>>, <<0,0,0>>, <<0,0,1>>, <<255,255,255>>, <<171,205,239>> >>
HsstB == << <<>>, <<0>>, <<1>>, <<255>> >>
\* one S-NSSAI of each length 1, 2, 4, 5, 8
E5 == << [sst |-> 1, sd |-> <<>>, hsst |-> <<>>, hsd |-> <<>>],
         [sst |-> 2, sd |-> <<>>, hsst |-> <<200>>, hsd |-> <<>>],
         [sst |-> 255, sd |-> <<1,2,3>>, hsst |-> <<>>, hsd |-> <<>>],
         [sst |-> 0, sd |-> <<255,255,255>>, hsst |-> <<4>>, hsd |-> <<>>],
         [sst |-> 8, sd |-> <<0,0,0>>, hsst |-> <<1>>, hsd |-> <<8,8,8>>] >>
Seqs(S, n) == UNION {[1..k -> S] : k \in 1..n}
Zeros(n) == [i \in 1..n |-> 0]

SnssaiLaw(v) ==
  LET e == SnssaiEnc(v)  d == NssaiDec(e) IN
  /\ (Len(e) - 1) \in SnssaiLengths /\ e[1] = Len(e) - 1 /\ IsOctetSeq(e)
  /\ d.ok /\ d.v = <<v>>
  /\ SnssaiOfContents(SnssaiContents(v)) = v
  /\ \A k \in 1..(Len(e) - 1) : ~NssaiDec(SubSeq(e, 1, k)).ok            \* every truncation is malformed
BadLenLaw == \A n \in (0..12) \ SnssaiLengths : ~NssaiDec(<<n>> \o Zeros(n)).ok /\ ~NssaiDec(SnssaiEnc(E5[1]) \o <<n>> \o Zeros(n)).ok

NssaiLaw(vs) ==
  LET e == NssaiEnc(vs)  d == NssaiDec(e) IN
  /\ d.ok /\ d.v = vs
  /\ NssaiEnc(d.v) = e
  /\ ~NssaiDec(SubSeq(e, 1, Len(e) - 1)).ok
  /\ ~NssaiDec(e \o <<3, 0, 0, 0>>).ok /\ ~NssaiDec(<<0>> \o e).ok /\ ~NssaiDec(e \o <<4, 1>>).ok

RejKinds == {[sst |-> s, sd |-> d, cause |-> c] : s \in {0, 1, 255}, d \in {<<>>, <<1,2,3>>}, c \in {0, 1}}
RejLaw(rs) ==
  LET e == RejEnc(rs)  d == RejDec(e) IN
  /\ d.ok /\ d.v = rs /\ RejEnc(d.v) = e
  /\ \A n \in (0..15) \ {1, 4} : ~RejDec(e \o <<16 * n>> \o Zeros(n)).ok
  /\ (Len(e) > 0 => ~RejDec(SubSeq(e, 1, Len(e) - 1)).ok)

Tacs3 == << <<0,0,1>>, <<0,0,2>>, <<1,255,255>> >>
TaiSmall == {Tai(Pl[i], Tacs3[j]) : i \in 1..2, j \in 1..3}
TaiLaw(ts) ==
  LET d10 == TaiListDec(Partial10(ts)) IN
  /\ \A i \in 1..Len(ts) : TaiOK(ts[i])
  /\ d10.ok /\ d10.v = ts
  /\ (SamePlmn(ts) => (TaiListDec(Partial00(ts)).ok /\ TaiListDec(Partial00(ts)).v = ts))
  /\ (Consecutive(ts) => (TaiListDec(Partial01(ts)).ok /\ TaiListDec(Partial01(ts)).v = ts))
  /\ \A k \in 1..(Len(ts) - 1) :                         \* any split into two partial lists
        LET a == SubSeq(ts, 1, k)  b == SubSeq(ts, k + 1, Len(ts))
            e == (IF SamePlmn(a) THEN Partial00(a) ELSE Partial10(a)) \o Partial10(b)
        IN TaiListDec(e).ok /\ TaiListDec(e).v = ts
  /\ ~TaiListDec(SubSeq(Partial10(ts), 1, Len(Partial10(ts)) - 1)).ok
  /\ ~TaiListDec(<<>>).ok
  /\ ~TaiListDec(<<96>> \o PlmnToWire(ts[1].plmn)).ok /\ ~TaiListDec(<<128>> \o Tail(Partial10(ts))).ok   \* type 11 / bit 8 exist only in the service area list
\* 1..16 TAIs: k PLMNs in rotation, TACs consecutive from a base or scattered
BigTais(n, k, pat) == [i \in 1..n |-> Tai(Pl[((i - 1) % k) + 1],
                                          CASE pat = 1 -> TacOf(254 + i) [] pat = 2 -> TacOf(65530 + i) [] pat = 3 -> TacOf((i * 1234567) % 16777216)
                                            \* TACs with arithmetic structure in ONE octet only (a TAC is a 24-bit number, most significant octet first:
                                            \* "consecutive" is a statement about that number, not about an octet or a mis-assembled number)
                                            [] pat = 4 -> <<(i - 1) % 2, i % 2, i - 1>>        \* low octet counts, high octets swap (000100, 010001, ...)
                                            [] pat = 5 -> <<i, 0, 7>>                          \* high octet counts
                                            [] pat = 6 -> <<0, i, 255>>                        \* middle octet counts
                                            [] pat = 7 -> TacOf(70000 - i)                     \* consecutive, descending
                                            [] pat = 8 -> <<(250 + i) % 256, (250 + i) \div 256, 0>>   \* consecutive when read least significant octet first
                                            [] OTHER -> <<18, 52, 86>>)]                       \* all equal
TooMany == ~TaiListDec(<<16>> \o PlmnToWire(Pl[1]) \o Zeros(51)).ok /\ ~TaiListDec(<<64 + 31>> \o Zeros(192)).ok
           /\ ~TaiListDec(Partial00(BigTais(16, 1, 1)) \o Partial00(BigTais(1, 1, 1))).ok      \* 17 TAIs in two partial lists

SalLaw(na, ts) ==
  LET v == [na |-> na, tais |-> ts, whole |-> <<>>] IN
  /\ SalDec(SalPartial10(na, ts)).ok /\ SalDec(SalPartial10(na, ts)).v = v
  /\ (SamePlmn(ts) => (SalDec(SalPartial00(na, ts)).ok /\ SalDec(SalPartial00(na, ts)).v = v))
  /\ (Consecutive(ts) => (SalDec(SalPartial01(na, ts)).ok /\ SalDec(SalPartial01(na, ts)).v = v))
  /\ SalDec(SalPartial10(na, ts)).v.na = (SalPartial10(na, ts)[1] \div 128)
  /\ (SalPartial10(na, ts)[1] % 32) = Len(ts) - 1                                      \* the count field is number of TACs - 1
  /\ (SamePlmn(ts) => (SalPartial00(na, ts)[1] % 32) = Len(ts) - 1)
  /\ ~SalDec(SalPartial10(na, ts) \o SalPartial10(1 - na, ts)).ok                      \* mixed allowed types
  /\ (na = 0 => (SalDec(SalPartial10(0, ts) \o SalPartial11(Pl[3])).ok
                 /\ SalDec(SalPartial10(0, ts) \o SalPartial11(Pl[3])).v = [na |-> 0, tais |-> ts, whole |-> <<Pl[3]>>]))
  /\ ~SalDec(SubSeq(SalPartial10(na, ts), 1, 6 * Len(ts))).ok

DnnOf(n, k) == [i \in 1..n |-> 97 + ((i * k) % 26)]
LadnLaw(n, ts) ==
  LET l == [dnn |-> DnnOf(n, 7), tais |-> ts]
      l2 == [dnn |-> DnnOf(101 - n, 3), tais |-> SubSeq(ts, 1, 1)]
      e10 == LadnEnc(l, Partial10(ts))
      e2 == LadnEnc(l2, Partial00(l2.tais)) IN
  /\ LadnInfoDec(e10).ok /\ LadnInfoDec(e10).v = <<l>>
  /\ (SamePlmn(ts) => (LadnInfoDec(LadnEnc(l, Partial00(ts))).ok /\ LadnInfoDec(LadnEnc(l, Partial00(ts))).v = <<l>>))
  /\ LadnInfoDec(e10 \o e2).ok /\ LadnInfoDec(e10 \o e2).v = <<l, l2>>
  /\ ~LadnInfoDec(SubSeq(e10, 1, Len(e10) - 1)).ok /\ ~LadnInfoDec(<<0, 0>>).ok
  /\ e10[1] = n /\ e10[n + 2] = Len(Partial10(ts))
DnnB == { DnnOf(1, 1), DnnOf(2, 5), DnnOf(9, 7), <<105, 110, 116, 101, 114, 110, 101, 116>>, DnnOf(100, 11) }
LadnIndLaw(ds) ==
  LET e == LadnIndEnc(ds)  d == LadnIndDec(e) IN
  /\ d.ok /\ d.v = ds /\ LadnIndEnc(d.v) = e
  /\ ~LadnIndDec(e \o <<0>>).ok /\ ~LadnIndDec(e \o <<2, 97>>).ok /\ ~LadnIndDec(<<0>> \o e).ok
  /\ (Len(e) > 0 => ~LadnIndDec(SubSeq(e, 1, Len(e) - 1)).ok)

\* published example (TS 24.501 / free5GC defaults): one TAI 208/93 TAC 000001 as type 00: 00 02f839 000001
ASSUME Partial00(<<Tai(Pl[1], <<0,0,1>>)>>) = <<0, 2, 248, 57, 0, 0, 1>>
ASSUME NssaiEnc(<<Plain(1, <<1,2,3>>), Plain(1, <<>>)>>) = <<4, 1, 1, 2, 3, 1, 1>>
ASSUME RejEnc(<<[sst |-> 1, sd |-> <<1,2,3>>, cause |-> 1]>>) = <<65, 1, 1, 2, 3>>
ASSUME SalPartial00(1, <<Tai(Pl[1], <<0,0,1>>), Tai(Pl[1], <<0,0,2>>)>>) = <<129, 2, 248, 57, 0, 0, 1, 0, 0, 2>>
ASSUME TooMany /\ BadLenLaw

Init == fam = "root" /\ x = <<>>
Fams == {"snssai", "nssai", "rej", "tai", "taibig", "sal", "ladn", "ladnind"}
Next ==
  \/ fam = "root" /\ \E f \in Fams : fam' = f /\ x' = <<>>
  \/ fam = "snssai" /\ x = <<>> /\ \E s \in 0..255 : x' = <<s>> /\ UNCHANGED fam             \* the leaf quantifies over the forms
  \/ fam = "nssai" /\ x = <<>> /\ \E k \in 1..5 : x' = <<k>> /\ UNCHANGED fam
  \/ fam = "nssai" /\ Len(x) = 1 /\ x[1] \in 1..5 /\ \E s \in Seqs(1..5, NssaiDepth) : s[1] = x[1] /\ x' = <<x[1], s>> /\ UNCHANGED fam
  \/ fam = "nssai" /\ x = <<>> /\ \E n \in 5..8, r \in 0..4 : x' = <<0, [i \in 1..n |-> ((i + r) % 5) + 1]>> /\ UNCHANGED fam
  \/ fam = "rej" /\ x = <<>> /\ \E rs \in Seqs(RejKinds, 3) \cup {<<>>} : x' = <<rs>> /\ UNCHANGED fam
  \/ fam = "tai" /\ x = <<>> /\ \E t \in TaiSmall : x' = <<t>> /\ UNCHANGED fam
  \/ fam = "tai" /\ Len(x) = 1 /\ \E ts \in Seqs(TaiSmall, TaiDepth) : ts[1] = x[1] /\ x' = <<x[1], ts>> /\ UNCHANGED fam
  \/ fam = "taibig" /\ x = <<>> /\ \E n \in 1..16, k \in 1..3, pat \in 1..3 : x' = <<n, k, pat>> /\ UNCHANGED fam
  \/ fam = "sal" /\ x = <<>> /\ \E na \in {0, 1}, ts \in Seqs(TaiSmall, 2) : x' = <<na, ts>> /\ UNCHANGED fam
  \/ fam = "sal" /\ x = <<>> /\ \E na \in {0, 1}, n \in 1..16, k \in 1..3, pat \in 1..3 : x' = <<na, BigTais(n, k, pat)>> /\ UNCHANGED fam
  \/ fam = "ladn" /\ x = <<>> /\ \E n \in 1..100, k \in 1..3 : x' = <<n, BigTais(k, k, 3)>> /\ UNCHANGED fam
  \/ fam = "ladnind" /\ x = <<>> /\ \E ds \in Seqs(DnnB, 3) \cup {<<>>} : x' = <<ds>> /\ UNCHANGED fam
  \/ fam = "ladnind" /\ x = <<>> /\ \E n \in 1..100 : x' = <<<<DnnOf(n, 5), DnnOf(101 - n, 3)>>>> /\ UNCHANGED fam
Spec == Init /\ [][Next]_vars

SnssaiForms(s) == {v \in {[sst |-> s, sd |-> SdB[a], hsst |-> HsstB[b], hsd |-> SdB[c]] : a \in 1..5, b \in 1..4, c \in 1..5} : SnssaiOK(v)}
Laws ==
  CASE fam = "snssai" /\ Len(x) = 1 -> \A v \in SnssaiForms(x[1]) : SnssaiLaw(v)
    [] fam = "nssai" /\ Len(x) = 2 -> NssaiLaw([i \in 1..Len(x[2]) |-> E5[x[2][i]]])
    [] fam = "rej" /\ Len(x) = 1 -> RejLaw(x[1])
    [] fam = "tai" /\ Len(x) = 2 -> TaiLaw(x[2])
    [] fam = "taibig" /\ Len(x) = 3 -> TaiLaw(BigTais(x[1], x[2], x[3]))
    [] fam = "sal" /\ Len(x) = 2 -> SalLaw(x[1], x[2])
    [] fam = "ladn" /\ Len(x) = 2 -> LadnLaw(x[1], x[2])
    [] fam = "ladnind" /\ Len(x) = 1 -> LadnIndLaw(x[1])
    [] OTHER -> TRUE
\* every S-NSSAI form count: 5 SD forms ... (sanity of the enumeration itself)
ASSUME Cardinality(SnssaiForms(7)) = 1 + 3 + 4 + 12 + 48
====
