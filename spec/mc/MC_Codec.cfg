SPECIFICATION Spec
CONSTANTS MaxOpt = 1 MsgLo = 1 MsgHi = 45
INVARIANTS DTypeOK DProgress DPosOK DAllocBound DAgrees GrammarAgrees WantRecovered RoundTrip ReEncode Out
PROPERTY Terminates
CHECK_DEADLOCK FALSE
