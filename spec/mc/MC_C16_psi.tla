---- MODULE MC_C16_psi ----
EXTENDS Psi
====
