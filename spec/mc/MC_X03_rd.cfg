SPECIFICATION Spec
CONSTANTS RdLenA = 2 RdLenB = 4
INVARIANTS RdTotal
CHECK_DEADLOCK FALSE
