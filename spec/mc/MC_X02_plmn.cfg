INIT InitPlmn
NEXT Next
CONSTANTS Mccs = {0, 1, 9, 10, 99, 100, 208, 310, 460, 901, 999}
INVARIANTS PlmnLaws
CHECK_DEADLOCK FALSE
