SPECIFICATION Spec
CONSTANTS SqnMod = 4 OvfMod = 2 Ctx <- CtxSec Msgs = {1} Starts = {0} NetCap = 2 MaxSent = 3 EnvBudget = 4
          Env <- EnvReplay Skips = {2, 3} MaxLead = 100 AllowWrap = TRUE Bits <- BitsSmall ReflectCounts <- NoCounts RefuseWrap = TRUE
INVARIANTS TypeOK Authenticity NoReplay NoReplayEver
CHECK_DEADLOCK FALSE
