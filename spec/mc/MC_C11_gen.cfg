SPECIFICATION GSpec
CONSTANTS SqnArgs <- McSqn OvfArgs <- McOvf SetArgs <- McSet Starts <- Window OneStep = TRUE
INVARIANTS TypeOK Composed StepOK EmitEdge
CHECK_DEADLOCK FALSE
