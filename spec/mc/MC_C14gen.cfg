SPECIFICATION GenSpec
INVARIANTS Emit GenTotal
CHECK_DEADLOCK FALSE
