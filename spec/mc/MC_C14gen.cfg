SPECIFICATION GenSpec
INVARIANTS Emit GenTotal WellFormedIsValue
CHECK_DEADLOCK FALSE
