INIT InitBufs
NEXT Next
CONSTANTS MaxLabels = 0 MaxText = 0 TextAlphabet = {46} BufAlphabet = {0, 1, 2, 3, 97, 255} MaxBuf = 5 Labels <- LabelsSmall
INVARIANTS BufLaws
CHECK_DEADLOCK FALSE
