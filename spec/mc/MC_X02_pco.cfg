INIT PbInit
NEXT PbNext
CONSTANTS PbIps <- IpsAll PbMtus <- MtusAll PbMaxOps = 3
INVARIANTS PbRows PbHistory PbErrors PbContents PbGrammar PbLength
PROPERTIES PbFrame
CHECK_DEADLOCK FALSE
