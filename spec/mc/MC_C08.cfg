SPECIFICATION Spec
CONSTANTS Cells = {1, 2} Algs = {0, 1, 2, 4} Keys = {1} Counts = {7} Bearers = {31} Dirs = {1}
          Sym = {0, 1} MaxLen = 2 Pats <- AllPats MacVals <- TwoMacs MaxRes = 0 MacTop = 1 Nil = Nil MaxPoints = 2 WithNil = FALSE
INVARIANTS TypeOK Accounting LengthPreserved Involution PrefixStable KsIndependent
PROPERTIES ErrUntouched GuardExact NullIdentity MacShape MacPure
CHECK_DEADLOCK FALSE
