INIT PbInit
NEXT PbNext
CONSTANTS PbIps <- IpsSmall PbMtus <- MtusSmall PbMaxOps = 2
INVARIANTS EmitHistory
CHECK_DEADLOCK FALSE
