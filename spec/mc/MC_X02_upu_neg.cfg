INIT Init
NEXT Next
CONSTANTS MaxSets = 1 SecLens = {1, 300} MaxSnssai = 1
INVARIANTS UpuOneOctetReadable
CHECK_DEADLOCK FALSE
