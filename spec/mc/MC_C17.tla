------------------------------ MODULE MC_C17 ------------------------------
(* Stage A for C17: the laws of TimersRatesNames on the full domains of the statement.
   The domains are cut into jobs; the state graph is root -> group -> job so that TLC's workers
   share the jobs; the invariant JobHolds evaluates the laws of the job of the current state.
   Stage B (generator): configuration MC_C17_gen walks the case structure of the specification
   (every unit switch-over, value/zone/digit boundary, every name length) and prints one JSON
   case per state. *)
EXTENDS TimersRatesNames, TLC, Json

CONSTANTS Groups,        \* fan-out of the job tree
          NameLen2,      \* names over the 2-septet alphabet up to this length
          NameLen4,      \* names over the 4-septet alphabet up to this length
          Chunk,         \* durations / values per job
          AmbrAllPairs,  \* TRUE: every pair of units for the two directions; FALSE: one partner unit per unit
          T3Dense        \* timer 3: every duration 0..T3Dense, beyond that windows around every multiple of 10 h

VARIABLE job

Alpha2 == {85, 42}                \* 1010101, 0101010
Alpha4 == {0, 127, 85, 42}

Clip(S, max) == {d \in S : d >= 0 /\ d <= max}
NChunks(max) == max \div Chunk + 1
ChunkOf(k, max) == (k * Chunk)..Min(max, (k + 1) * Chunk - 1)

StampYears == {2000, 2009, 2010, 2024, 2099}
StampHours == {0, 9, 10, 23}
StampMins  == {0, 14, 15, 44, 45, 59}
StampSecs  == {0, 59}
StampZones == {-79, -40, -1, 0, 1, 22, 79}
Day2000 == DaysFromCivil(2000, 1, 1)
Day2100 == DaysFromCivil(2100, 1, 1)

Jobs ==
  {<<"t2", k>> : k \in 0..(NChunks(Timer2Max) - 1)}
  \cup {<<"t3", k>> : k \in 0..(NChunks(T3Dense) - 1)}
  \cup {<<"t3w", k>> : k \in 1..31}
  \cup {<<"ambr", u, k>> : u \in 1..5, k \in 0..(NChunks(65535) - 1)}
  \cup {<<"zone">>, <<"bcd">>}
  \cup {<<"cal", k>> : k \in 0..((Day2100 - Day2000) \div Chunk)}
  \cup {<<"stamp", y, mo>> : y \in StampYears, mo \in 1..12}
  \cup {<<"name2", n, c>> : n \in 1..NameLen2, c \in Alpha2}
  \cup {<<"name4", n, c>> : n \in 1..NameLen4, c \in Alpha4}
  \cup {<<"name0">>}

\* spread the jobs over the groups by their numeric components
GroupOf(j) == ((IF Len(j) >= 2 THEN j[2] ELSE 0) + (IF Len(j) >= 3 THEN 7 * j[3] ELSE 0)) % Groups

\* all names of length n over alphabet A whose first septet is c
NamesOf(n, A, c) == {<<c>> \o t : t \in [1..(n - 1) -> A]}

JobHolds(j) ==
  CASE j[1] = "root" -> TRUE
    [] j[1] = "group" -> TRUE
    [] j[1] = "t2" -> \A d \in ChunkOf(j[2], Timer2Max) : Timer2Law(d) /\ (d % 16 \in {0, 1, 15} => Timer2Best(d))
    [] j[1] = "t3w" -> \A d \in Clip((36000 * j[2] - 24)..(36000 * j[2] + 24), Timer3Max) : Timer3Law(d) /\ Timer3Best(d)
    [] j[1] = "t3" -> \A d \in ChunkOf(j[2], Min(T3Dense, Timer3Max)) : Timer3Law(d) /\ (d % 64 = j[2] % 64 => Timer3Best(d))
    [] j[1] = "ambr" -> \A v \in ChunkOf(j[3], 65535) : \A u2 \in (IF AmbrAllPairs THEN 1..5 ELSE {(j[2] % 5) + 1}) :
                           AmbrLaw(v, AmbrUnits[j[2]], 65535 - v, AmbrUnits[u2])
    [] j[1] = "zone" ->
         /\ \A q \in ZoneRange, dst \in DstRange : ZoneLaw(q, dst)
         \* every well-formed octet is the encoding of its reading, except minus zero
         /\ \A o \in Octets : ZoneValid(o) /\ o # 8 => ZoneEncode(ZoneDecode(o)) = o
         /\ ZoneDecode(8) = 0
         /\ Cardinality({ZoneEncode(q) : q \in ZoneRange}) = 159
         /\ Cardinality({ZoneDstText(q, dst) : q \in ZoneRange, dst \in DstRange}) = 477
    [] j[1] = "bcd" -> \A n \in 0..99 : BcdValid(SwapBcd(n)) /\ UnswapBcd(SwapBcd(n)) = n
    [] j[1] = "cal" -> \A n \in {Day2000 + x : x \in ChunkOf(j[2], Day2100 - Day2000 - 1)} : CalendarLaw(n)
    [] j[1] = "stamp" ->
         \A d \in 1..DaysInMonth(j[2], j[3]), h \in StampHours, mi \in StampMins, s \in StampSecs, q \in StampZones :
           LET st == [y |-> j[2], mo |-> j[3], d |-> d, h |-> h, mi |-> mi, s |-> s, q |-> q] IN
           ValidStamp(st) /\ StampLaw(st) /\ ZoneShiftLaw(st)
    [] j[1] = "name2" -> \A nm \in NamesOf(j[2], Alpha2, j[3]) : NameLaw(nm) /\ NameOK(nm, NameContents(nm))
    [] j[1] = "name4" -> \A nm \in NamesOf(j[2], Alpha4, j[3]) : NameLaw(nm) /\ NameOK(nm, NameContents(nm))
    [] j[1] = "name0" -> NameLaw(<<>>) /\ NameOK(<<>>, NameContents(<<>>))
    [] OTHER -> FALSE

Init == job = <<"root">>
Next ==
  \/ job[1] = "root" /\ job' \in {<<"group", g>> : g \in 0..(Groups - 1)}
  \/ job[1] = "group" /\ job' \in {j \in Jobs : GroupOf(j) = job[2]}
Spec == Init /\ [][Next]_job
Laws == JobHolds(job)

(* ------------------------------ generator ------------------------------ *)
\* boundary durations of a timer: around every multiple at both ends of every unit's range,
\* i.e. every switch-over of the finest-unit ladder +- 1, and the ends of the range.
TimerBoundary(mults, units, max) ==
  Clip(UNION {{mults[u] * v - 1, mults[u] * v, mults[u] * v + 1} : u \in units, v \in {0, 1, 2, 30, 31, 32}}
       \cup {max - 1, max}, max)
AmbrBoundary == {0, 1, 9, 10, 255, 256, 257, 9999, 10000, 32766, 32767, 32768, 32769, 65534, 65535}

GenStampBases == {[y |-> 2024, mo |-> 2, d |-> 29, h |-> 23, mi |-> 59, s |-> 58, q |-> 32],
                  [y |-> 2000, mo |-> 1, d |-> 1, h |-> 0, mi |-> 0, s |-> 0, q |-> 0],
                  [y |-> 2099, mo |-> 12, d |-> 31, h |-> 19, mi |-> 7, s |-> 30, q |-> -79]}
GenStamps ==
  LET one == UNION { {[b EXCEPT !.y = 2000 + yy] : yy \in 0..99} \cup {[b EXCEPT !.mo = m] : m \in 1..12}
                     \cup {[b EXCEPT !.d = d] : d \in 1..31} \cup {[b EXCEPT !.h = h] : h \in 0..23}
                     \cup {[b EXCEPT !.mi = m] : m \in 0..59} \cup {[b EXCEPT !.s = x] : x \in 0..59}
                     \cup {[b EXCEPT !.q = q] : q \in ZoneRange} : b \in GenStampBases}
      corners == {[y |-> y, mo |-> mo, d |-> d, h |-> h, mi |-> mi, s |-> s, q |-> q] :
                    y \in {2000, 2023, 2024, 2099}, mo \in {1, 2, 12}, d \in {1, 28, 29, 31},
                    h \in {0, 23}, mi \in {0, 59}, s \in {0, 59}, q \in {-79, -1, 0, 1, 79}}
  IN {s \in one \cup corners : ValidStamp(s)}

\* characters whose ASCII code is their GSM 7-bit default alphabet code
SharedAlphabet == AsciiGsmSame
SharedSeq == <<122, 63, 85, 42, 32, 97, 90, 48, 57, 35, 37, 10, 13, 65, 46, 33, 47, 58, 109, 77>>
CtlSeq == <<1, 2, 3, 4, 5, 6, 7, 8, 9, 11, 12, 14, 15, 16, 17, 18, 19, 20, 21, 22, 23, 24, 25, 26, 27, 28, 29, 30, 31, 127, 0>>
OtherSeq == <<36, 64, 95>>
NamePattern(p, n) ==
  CASE p = "z" -> [i \in 1..n |-> 122]
    [] p = "alt" -> [i \in 1..n |-> IF i % 2 = 1 THEN 85 ELSE 42]
    [] p = "alt2" -> [i \in 1..n |-> IF i % 2 = 1 THEN 42 ELSE 85]
    [] p = "count" -> [i \in 1..n |-> SharedSeq[((i - 1) % Len(SharedSeq)) + 1]]
    [] p = "sp" -> [i \in 1..n |-> 32]
    [] p = "onehot" -> [i \in 1..n |-> IF i % 8 = n % 8 THEN 122 ELSE 32]
    \* characters outside the alphabet ASCII and GSM 7-bit share (see NameOKAny): code 0 at the end (one, two, three times),
    \* at the start, alone, in every position of a text; the other codes without a stated value; the three characters
    \* that have another code in the basic table
    [] p = "nul1" -> [i \in 1..n |-> IF i = n THEN 0 ELSE SharedSeq[((i - 1) % Len(SharedSeq)) + 1]]
    [] p = "nul2" -> [i \in 1..n |-> IF i >= n - 1 THEN 0 ELSE SharedSeq[((i - 1) % Len(SharedSeq)) + 1]]
    [] p = "nul3" -> [i \in 1..n |-> IF i >= n - 2 THEN 0 ELSE 122]
    [] p = "nul0" -> [i \in 1..n |-> IF i = 1 THEN 0 ELSE SharedSeq[((i - 1) % Len(SharedSeq)) + 1]]
    [] p = "nulall" -> [i \in 1..n |-> 0]
    [] p = "nulalt" -> [i \in 1..n |-> IF i % 2 = n % 2 THEN 0 ELSE 85]
    [] p = "ctl" -> [i \in 1..n |-> IF i % 3 = n % 3 THEN CtlSeq[((i + n) % Len(CtlSeq)) + 1] ELSE 97]
    [] p = "delend" -> [i \in 1..n |-> IF i = n THEN 127 ELSE 48]
    [] p = "other" -> [i \in 1..n |-> IF i % 2 = n % 2 THEN OtherSeq[((i + n) % 3) + 1] ELSE 65]
NamePatterns == {"z", "alt", "alt2", "count", "sp", "onehot", "nul1", "nul2", "nul3", "nul0", "nulall", "nulalt", "ctl", "delend", "other"}
MaxGenName == 64

GenCases ==
  {[op |-> "T2", d |-> d] : d \in TimerBoundary(Timer2Mults, 0..2, Timer2Max)}
  \cup {[op |-> "T3", d |-> d] : d \in TimerBoundary(Timer3Mults, 0..5, Timer3Max)}
  \cup {[op |-> "AMBR", dlv |-> v, dlu |-> AmbrUnits[u], ulv |-> 65535 - v, ulu |-> AmbrUnits[(u % 5) + 1]] :
          v \in AmbrBoundary, u \in 1..5}
  \cup {[op |-> "AMBR", dlv |-> 1 + u, dlu |-> AmbrUnits[(u % 5) + 1], ulv |-> v, ulu |-> AmbrUnits[u]] :
          v \in AmbrBoundary, u \in 1..5}
  \cup {[op |-> "TZ", q |-> q, dst |-> dst, text |-> ZoneDstText(q, dst)] : q \in ZoneRange, dst \in DstRange}
  \cup {[op |-> "TZDec", o |-> o] : o \in {x \in Octets : ZoneValid(x)}}
  \cup {[op |-> "UT", st |-> s, o |-> StampEncode(s)] : s \in GenStamps}
  \cup {[op |-> "Name", kind |-> k, name |-> SubSeq(NamePattern(p, n), 1, n)] : k \in {"Full", "Short"}, p \in NamePatterns, n \in 0..MaxGenName}

GenInit == job \in GenCases
GenNext == FALSE /\ UNCHANGED job
GenSpec == GenInit /\ [][GenNext]_job
Emit == PrintT(ToJson(job))
\* the generated cases are in the domain of the statement and the specification's laws hold on them
GenSane ==
  CASE job.op = "T2" -> job.d \in 0..Timer2Max /\ Timer2Law(job.d)
    [] job.op = "T3" -> job.d \in 0..Timer3Max /\ Timer3Law(job.d)
    [] job.op = "AMBR" -> AmbrLaw(job.dlv, job.dlu, job.ulv, job.ulu)
    [] job.op = "TZ" -> ZoneLaw(job.q, job.dst)
    [] job.op = "TZDec" -> ZoneValid(job.o)
    [] job.op = "UT" -> ValidStamp(job.st) /\ StampLaw(job.st)
    [] job.op = "Name" -> (\A i \in 1..Len(job.name) : job.name[i] \in SharedAlphabet \cup NoStatedValue \cup DOMAIN AsciiToGsmOther)
                         /\ NameLaw(job.name) /\ NameOKAny(job.name, NameContents(job.name))
                         /\ ((\A i \in 1..Len(job.name) : job.name[i] \in SharedAlphabet) => NameOK(job.name, NameContents(job.name)))
=============================================================================
