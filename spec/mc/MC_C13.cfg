SPECIFICATION Spec
CONSTANTS
  NssaiDepth = 3
  TaiDepth = 3
INVARIANTS Laws
CHECK_DEADLOCK FALSE
