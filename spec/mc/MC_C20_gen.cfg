SPECIFICATION Spec
CONSTANTS MinLo = 0 MaxLo = 2 MaxSize = 4 ArgSlack = 1
INVARIANTS EmitEdge InBounds Fresh FailOnlyWhenFull NoHang
CHECK_DEADLOCK FALSE
