---- MODULE MC_C13_gen ----
(* Stage B for C13: TLC produces the conformance cases from the case structure of AreaLists.tla and prints them as JSON
   {fam, w (octets), sn / sn2 (S-NSSAI models), tai (TAI models), areas, k (numbers), dnn}; wire inputs for the library's
   decoders are produced by the specification's ENCODERS, model inputs for its encoders are plain values.
     snssai      SST 0..255 x SD forms (absent, 000000, 000001, ffffff, two arbitrary)  -> SnssaiToNas, RejectedSnssaiToNas, SnssaiToModels
     snssaiwire  S-NSSAIs with mapped parts (lengths 2, 5, 8)                          -> SnssaiToModels (information only)
     nssai       lists of 1..8 entries with all five entry lengths                     -> RequestedNssaiToModels
     badnssai    wrong entry lengths, truncations, length beyond the end               -> RequestedNssaiToModels must report an error
     rej         0..4 + 0..4 rejected S-NSSAIs                                         -> RejectedNssaiToNas
     tai         1..16 TAIs over 1..3 PLMNs, consecutive and scattered TACs; all short lists over 2 PLMNs x 3 TACs -> TaiListToNas
     sal         PLMN x allowed / not allowed x 1..16 TACs spread over 1..4 areas      -> PartialServiceAreaListToNas
     ladn        DNN lengths 1..100 x 1..3 TAIs                                        -> LadnToNas
     ladnind     LADN indication with one DNN of each length 1..100, lists of 0..4 DNNs, a DNN holding a NUL -> LadnToModels *)
EXTENDS MC_C13, Json
CONSTANT Big

\* hexadecimal text is legal in either case of the letters (TS 29.571: ^[A-Fa-f0-9]{6}$): a third of the texts in lower case,
\* a third in upper case, a third alternating - chosen by the value, so that every generated list mixes them
UpCp(c) == IF c \in 97..102 THEN c - 32 ELSE c
CaseText(txt, k) == [i \in 1..Len(txt) |-> IF k = 1 \/ (k = 2 /\ i % 2 = 1) THEN UpCp(txt[i]) ELSE txt[i]]
HexTextC(os) == IF Len(os) = 0 THEN <<>> ELSE CaseText(HexText(os), (os[Len(os)] + os[1]) % 3)
SnJ(v)  == [sst |-> v.sst, sd |-> HexTextC(v.sd)]
TaiJ(t) == [mcc |-> MccText(t.plmn), mnc |-> MncText(t.plmn), tac |-> HexTextC(t.tac)]
SeqJ(F(_), s) == [i \in 1..Len(s) |-> F(s[i])]
SdG == SdB \o << <<10, 27, 44>>, <<128, 0, 127>> >>
Causes == IF Big THEN <<0, 1, 2, 15>> ELSE <<0, 1>>
RejM == {Plain(s, d) : s \in {0, 1, 255}, d \in {<<>>, <<1,2,3>>, <<255,255,255>>}}
RejList(n, r) == [i \in 1..n |-> Plain((i * 7 + r) % 256, IF (i + r) % 2 = 0 THEN <<>> ELSE <<i, r, 255 - i>>)]
BadLens == {0, 3, 6, 7, 9, 10, 255}
\* spread n TAC texts over a areas: round robin (pat 1) or everything but one each in the first area (pat 2)
AreaOf(i, n, a, pat) == IF pat = 1 THEN ((i - 1) % a) + 1 ELSE (IF i <= n - a + 1 THEN 1 ELSE i - (n - a))
RECURSIVE SelectIdx(_, _, _, _, _)
SelectIdx(i, n, a, pat, j) == IF i > n THEN <<>> ELSE (IF AreaOf(i, n, a, pat) = j THEN <<i>> ELSE <<>>) \o SelectIdx(i + 1, n, a, pat, j)
Areas(ts, a, pat) == [j \in 1..a |-> LET ix == SelectIdx(1, Len(ts), a, pat, j) IN [m \in 1..Len(ix) |-> HexTextC(ts[ix[m]].tac)]]

GInit == fam = "root" /\ x = <<>>
GFams == {"snssai", "snssaiwire", "nssai", "badnssai", "rej", "tai", "sal", "ladn", "ladnind"}
GNext ==
  \/ fam = "root" /\ \E f \in GFams : fam' = f /\ x' = <<>>
  \/ fam = "snssai" /\ x = <<>> /\ \E s \in 0..255, d \in 1..Len(SdG) : x' = <<s, d>> /\ UNCHANGED fam
  \/ fam = "snssaiwire" /\ x = <<>> /\ \E s \in {0, 1, 255} : \E v \in SnssaiForms(s) : Len(v.hsst) = 1 /\ x' = <<v>> /\ UNCHANGED fam
  \/ fam = "nssai" /\ x = <<>> /\ \E s \in Seqs(1..5, IF Big THEN 4 ELSE 2) : x' = <<s>> /\ UNCHANGED fam
  \/ fam = "nssai" /\ x = <<>> /\ \E n \in 3..8, r \in 0..4 : x' = <<[i \in 1..n |-> ((i + r) % 5) + 1]>> /\ UNCHANGED fam
  \/ fam = "nssai" /\ x = <<>> /\ \E n \in 1..8, k \in 1..5 : x' = <<[i \in 1..n |-> k]>> /\ UNCHANGED fam
  \/ fam = "badnssai" /\ x = <<>> /\ \E n \in 0..3, r \in 0..4 : x' = <<[i \in 1..n |-> ((i + r) % 5) + 1]>> /\ UNCHANGED fam
  \/ fam = "badnssai" /\ Len(x) = 1 /\
        LET e == NssaiEnc([i \in 1..Len(x[1]) |-> E5[x[1][i]]]) IN
        \/ \E b \in BadLens : \E pos \in {"front", "back"} :
              x' = <<x[1], IF pos = "front" THEN <<b>> \o Zeros(IF b = 255 THEN 3 ELSE b) \o e ELSE e \o <<b>> \o Zeros(IF b = 255 THEN 3 ELSE b)>> /\ UNCHANGED fam
        \/ Len(e) > 0 /\ \E cut \in 1..(IF Len(e) < 3 THEN Len(e) ELSE 3) : x' = <<x[1], SubSeq(e, 1, Len(e) - cut)>> /\ Len(x'[2]) > 0
              /\ ~NssaiDec(x'[2]).ok /\ UNCHANGED fam
        \/ \E l \in SnssaiLengths : x' = <<x[1], e \o <<l>> \o Zeros(l - 1)>> /\ UNCHANGED fam                \* declared length one beyond the end
  \/ fam = "rej" /\ x = <<>> /\ \E a \in 0..4, b \in 0..4, r \in {0, 3} : x' = <<RejList(a, r), RejList(b, r + 1)>> /\ UNCHANGED fam
  \/ fam = "rej" /\ x = <<>> /\ \E a \in RejM, b \in RejM : x' = <<<<a>>, <<b>>>> /\ UNCHANGED fam
  \/ fam = "tai" /\ x = <<>> /\ \E n \in 1..16, k \in 1..3, pat \in 1..9 : x' = <<BigTais(n, k, pat)>> /\ UNCHANGED fam
  \/ fam = "tai" /\ x = <<>> /\ \E ts \in Seqs(TaiSmall, IF Big THEN 3 ELSE 2) : x' = <<ts>> /\ UNCHANGED fam
  \/ fam = "sal" /\ x = <<>> /\ \E p \in 1..3, al \in {0, 1}, n \in 1..16, a \in 1..4, pat \in {1, 2} :
        a <= n /\ x' = <<al, BigTais(n, 1, IF pat = 1 THEN 3 ELSE 1), a, pat, p>> /\ UNCHANGED fam
  \/ fam = "ladn" /\ x = <<>> /\ \E n \in 1..100, k \in 1..3 : x' = <<DnnOf(n, 7), BigTais(k, k, 3)>> /\ UNCHANGED fam
  \/ fam = "ladnind" /\ x = <<>> /\ \E n \in 1..100 : x' = <<<<DnnOf(n, 5)>>>> /\ UNCHANGED fam
  \/ fam = "ladnind" /\ x = <<>> /\ \E ds \in Seqs(DnnB, IF Big THEN 3 ELSE 2) \cup {<<>>, <<<<0>>>>} : x' = <<ds>> /\ UNCHANGED fam
  \/ fam = "ladnind" /\ x = <<>> /\ \E n \in 1..50 : x' = <<<<DnnOf(n, 5), DnnOf(101 - n, 3), DnnOf(2 * n, 9), DnnOf(n, 11)>>>> /\ UNCHANGED fam
GSpec == GInit /\ [][GNext]_vars

Case(f, w, sn, sn2, tai, areas, k, dnn) == [fam |-> f, w |-> w, sn |-> sn, sn2 |-> sn2, tai |-> tai, areas |-> areas, k |-> k, dnn |-> dnn]
E == <<>>
SalPlmn(ts, p) == [i \in 1..Len(ts) |-> Tai(Pl[p], ts[i].tac)]
CaseOf ==
  CASE fam = "snssai" /\ Len(x) = 2 -> LET v == Plain(x[1], SdG[x[2]]) IN Case("snssai", SnssaiEnc(v), <<SnJ(v)>>, E, E, E, Causes, E)
    [] fam = "snssaiwire" /\ Len(x) = 1 -> Case("snssaiwire", SnssaiEnc(x[1]), E, E, E, E, E, E)
    [] fam = "nssai" /\ Len(x) = 1 -> Case("nssai", NssaiEnc([i \in 1..Len(x[1]) |-> E5[x[1][i]]]), E, E, E, E, E, E)
    [] fam = "badnssai" /\ Len(x) = 2 -> Case("badnssai", x[2], E, E, E, E, E, E)
    [] fam = "rej" /\ Len(x) = 2 -> Case("rej", E, SeqJ(SnJ, x[1]), SeqJ(SnJ, x[2]), E, E, E, E)
    [] fam = "tai" /\ Len(x) = 1 -> Case("tai", E, E, E, SeqJ(TaiJ, x[1]), E, E, E)
    [] fam = "sal" /\ Len(x) = 5 -> LET ts == SalPlmn(x[2], x[5]) IN Case("sal", E, E, E, <<TaiJ(ts[1])>>, Areas(ts, x[3], x[4]), <<x[1]>>, E)
    [] fam = "ladn" /\ Len(x) = 2 -> Case("ladn", E, E, E, SeqJ(TaiJ, x[2]), E, E, x[1])
    [] fam = "ladnind" /\ Len(x) = 1 -> Case("ladnind", LadnIndEnc(x[1]), E, E, E, E, E, E)
    [] OTHER -> Case("", E, E, E, E, E, E, E)
Emit == CaseOf.fam # "" => PrintT(ToJson(CaseOf))
====
