SPECIFICATION Spec
CONSTANTS SqnMod = 4 OvfMod = 3 Ctx <- CtxSec Msgs = {1, 2} Starts = {0, 2, 6} NetCap = 2 MaxSent = 3 EnvBudget = 3
          Env <- EnvAll Skips = {1, 3, 4, 5} MaxLead = 100 AllowWrap = FALSE Bits <- BitsSmall ReflectCounts <- NoCounts RefuseWrap = FALSE
INVARIANTS TypeOK Authenticity NoReplay NoReorderAcceptOld TamperRejected AcceptWindow ReceiverNotAhead DesyncedRejectsAll
PROPERTIES CountMonotone RejectIsNoOp DesyncIsPermanent
CHECK_DEADLOCK FALSE
