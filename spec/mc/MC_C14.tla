------------------------------ MODULE MC_C14 ------------------------------
(* Stage A for C14.
   (1) Small-step model of the list walkers: every running step strictly decreases the
       termination measure (action property), every walk ends (liveness under weak fairness),
       the offset never leaves the buffer, and the final status is the one of the big-step
       operator used by the result-class functions.
   (2) Totality: for every helper and every octet string up to MaxLen over the helper's abstract
       octet alphabet (boundary values of every length / offset / type octet) the result-class
       operator evaluates to a class; the same for the text helpers over the text alphabet.
   Stage B: MC_C14gen. *)
EXTENDS Helpers, TLC, Json

CONSTANTS MaxLen,       \* list walkers: octet strings of length 0..MaxLen
          MaxFixed,     \* other helpers: octet strings of length 0..MaxFixed
          MaxText       \* texts of length 0..MaxText

VARIABLES h, buf, off, n, status
vars == <<h, buf, off, n, status>>

LoopAlphabet(x) ==
  CASE x = "RequestedNssaiToModels" -> {0, 1, 2, 3, 4, 5, 8, 9, 255}
    [] x = "LadnToModels" -> {0, 1, 2, 3, 4, 5, 255}
    [] x = "DNN.GetDNN" -> {0, 1, 2, 3, 4, 63, 255}
\* type / format octets (identity type in bits 1-3, SUPI format in bits 5-7, odd/even bit 4), nibble fillers
FixedAlphabet == {0, 1, 2, 3, 4, 5, 6, 17, 242, 255}
Alphabet(x) == IF x \in LoopHelpers THEN LoopAlphabet(x) ELSE FixedAlphabet
StringsOver(A, k) == UNION {[1..m -> A] : m \in 0..k}
\* '0' '9' 'a' 'F' 'g' and a two-byte rune
TextAlphabet == {48, 57, 97, 70, 103, 233}

Init ==
  /\ h \in AllHelpers
  /\ buf \in (IF h \in TextHelpers THEN StringsOver(TextAlphabet, MaxText) ELSE StringsOver(Alphabet(h), IF h \in LoopHelpers THEN MaxLen ELSE MaxFixed))
  /\ off = 0 /\ n = 0
  /\ status = IF h \in LoopHelpers THEN "run" ELSE "done"
Next ==
  /\ status = "run"
  /\ LET r == Step(h, buf, off, n) IN status' = r[1] /\ off' = r[2] /\ n' = r[3]
  /\ UNCHANGED <<h, buf>>
Spec == Init /\ [][Next]_vars /\ WF_vars(Next)

OffsetInBounds == off \in 0..Len(buf) /\ n \in 0..Len(buf)
MeasureDecreases == [][Measure(buf, off', status') < Measure(buf, off, status)]_vars
Terminates == <>(status # "run")
\* the small-step walk ends where the big-step operator says
BigStepAgrees == status # "run" /\ h \in LoopHelpers => Walk(h, buf, 0, 0) = <<status, off, n>>
\* totality of the result-class operators
ClassTotal ==
  off = 0 => (IF h \in TextHelpers THEN TextClass(h, buf) ELSE ByteClass(h, SubSeq(buf, 1, Len(buf)))) \in Classes
\* a well-formed requested NSSAI of k entries is a value; anything with a zero length octet at an entry boundary is not
NssaiSanity ==
  h = "RequestedNssaiToModels" /\ status = "done" /\ n > 0 => WalkClass(h, buf) = "val"

=============================================================================
