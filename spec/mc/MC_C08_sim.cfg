SPECIFICATION Spec
CONSTANTS Cells = {1, 2} Algs = {0, 1, 2, 3, 4} Keys = {2, 3} Counts = {2, 3} Bearers = {0, 9, 31, 32} Dirs = {0, 1, 2}
          Sym = {0, 1} MaxLen = 3 Pats <- Pats3 MacVals <- TwoMacs MaxRes = 0 MacTop = 1 Nil = Nil MaxPoints = 3 WithNil = TRUE
INVARIANTS Accounting LengthPreserved Involution PrefixStable KsIndependent
CHECK_DEADLOCK FALSE
