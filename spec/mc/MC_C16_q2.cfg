SPECIFICATION Spec
CONSTANTS Ids = {0, 13, 65535} Lens = {0, 1, 2, 255} MaxUnits = 2 Alphabet = {0, 1, 2, 128, 255} MaxFree = 5
INVARIANTS TypeOK Accounting MeasureBounded UnitsInInput Ordered AgreesWithGrammar RoundTrip Truncated FirstOctet ExactIffWhole ExactAccepted
PROPERTIES MeasureDecreases PerCycle
