INIT InitTexts
NEXT Next
CONSTANTS MaxLabels = 0 MaxText = 7 TextAlphabet = {46, 97, 45} BufAlphabet = {0} MaxBuf = 0 Labels <- LabelsSmall
INVARIANTS TextLaws
CHECK_DEADLOCK FALSE
