INIT GInit
NEXT GenNext
CONSTANTS SqnMod = 256 OvfMod = 65536 Ctx <- CtxGen Msgs = {0, 1, 2, 3, 4, 5, 6, 7, 8, 9, 10, 11} Starts <- GenStarts NetCap = 3
          MaxSent = 60 EnvBudget = 45 Env <- EnvAll Skips = {1, 2, 3, 100, 254, 255, 256, 257} MaxLead = 16777216 AllowWrap = TRUE
          Bits <- BitsGen ReflectCounts <- NoCounts RefuseWrap = FALSE Depth = 0
CHECK_DEADLOCK FALSE
