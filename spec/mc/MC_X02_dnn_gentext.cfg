INIT InitTexts
NEXT Next
CONSTANTS MaxLabels = 0 MaxText = 5 TextAlphabet = {46, 97, 45} BufAlphabet = {0} MaxBuf = 0 Labels <- LabelsSmall
INVARIANTS EmitText
CHECK_DEADLOCK FALSE
