SPECIFICATION Spec
CONSTANTS MaxOpt = 1 MsgLo = 9 MsgHi = 9 AllDeep = FALSE Local = FALSE Gen = FALSE
INVARIANTS XNeverOpen
CHECK_DEADLOCK FALSE
