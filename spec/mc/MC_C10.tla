------------------------------- MODULE MC_C10 -------------------------------
(* C10 - purity of decode and encode, as a heap discipline on top of the decoder machine (NasHeap).
   Memory is a sequence of cells (octet strings).  Cell 1 is the caller's input.  Each buffer-backed element the
   decoder stores gets a FRESH cell holding a COPY of the octets (array-backed elements live inline in the message
   struct).  After the decoder has terminated the environment may scribble over the input cell, or over every
   message cell; the other side must not notice.  Then an encoder machine appends the message, slot by slot, to an
   output cell that already holds a caller's prefix.
   Invariants / action properties checked by TLC on every path of the generator tree:
     InputNeverWritten, NoAlias, FreshCells, ScribbleInputHarmless, ScribbleMsgHarmless   (decode)
     OutOnlyGrows (action property), MsgUntouchedByEncode, EncodeResult                     (encode)  *)
EXTENDS MC_Codec, SequencesExt
VARIABLES cells,   \* heap
          refs,    \* slot -> cell id, for buffer-backed slots
          scr,     \* "none" | "input" | "msg"
          out, ek, msg0   \* encoder machine: output cell, slot cursor, snapshot of the message before encoding
hvars == <<cells, refs, scr, out, ek, msg0>>
allvars == <<vars, hvars>>
Invert(s) == [i \in 1..Len(s) |-> 255 - s[i]]
NoRefs == [x \in {} |-> 0]
IsBuf(kind, k) == (IF kind = "m" THEN M.mand[k] ELSE M.opt[k]).data = "buf"

HInit == cells = <<>> /\ refs = NoRefs /\ scr = "none" /\ out = <<>> /\ ek = 0 /\ msg0 = <<>>
\* heap bookkeeping that follows one decoder step (primed decoder variables tell what was stored)
HFollow ==
  LET newMand == Len(dmand') > Len(dmand)
      km == Len(dmand')
      chg == IF dopt = <<>> THEN {} ELSE {k \in 1..Len(dopt') : dopt'[k] # dopt[k]}
  IN IF newMand /\ IsBuf("m", km)
       THEN cells' = Append(cells, dmand'[km].v) /\ refs' = [x \in DOMAIN refs \cup {<<"m", km>>} |-> IF x = <<"m", km>> THEN Len(cells) + 1 ELSE refs[x]]
     ELSE IF chg # {} /\ IsBuf("o", CHOOSE k \in chg : TRUE)
       THEN LET k == CHOOSE k \in chg : TRUE IN
            cells' = Append(cells, dopt'[k].v) /\ refs' = [x \in DOMAIN refs \cup {<<"o", k>>} |-> IF x = <<"o", k>> THEN Len(cells) + 1 ELSE refs[x]]
     ELSE UNCHANGED <<cells, refs>>
\* the message as a reader sees it: buffer-backed contents come from the heap
ViaHeap(kind, k, val) == IF <<kind, k>> \in DOMAIN refs THEN [val EXCEPT !.v = cells[refs[<<kind, k>>]]] ELSE val
ProjH == [mand |-> [k \in 1..Len(dmand) |-> ViaHeap("m", k, dmand[k])],
          opt |-> [k \in 1..Len(dopt) |-> ViaHeap("o", k, dopt[k])]]

ScribbleInput == /\ gphase = "run" /\ DTerminated /\ scr = "none" /\ ek = 0
                 /\ cells' = [cells EXCEPT ![1] = Invert(@)] /\ scr' = "input"
                 /\ UNCHANGED <<vars, refs, out, ek, msg0>>
ScribbleMsg ==   /\ gphase = "run" /\ dphase = "done" /\ scr = "none" /\ ek = 0
                 /\ cells' = [i \in 1..Len(cells) |-> IF i = 1 THEN cells[1] ELSE Invert(cells[i])] /\ scr' = "msg"
                 /\ UNCHANGED <<vars, refs, out, ek, msg0>>
\* encoder machine: runs on the decoded message of an accepted input, appending to a caller's prefix
Pre(pn) == [i \in 1..pn |-> Pat(i)]
EncStart == /\ gphase = "run" /\ dphase = "done" /\ scr = "none" /\ ek = 0
            /\ \E pn \in {0, 1, 17} : out' = Pre(pn)
            /\ ek' = 1 /\ msg0' = ProjH
            /\ UNCHANGED <<vars, cells, refs, scr>>
NSlots == Len(M.mand) + Len(M.opt)
EncStep == /\ ek >= 1 /\ ek <= NSlots
           /\ out' = out \o (IF ek <= Len(M.mand) THEN EncSlot(M.mand[ek], ProjH.mand[ek])
                             ELSE EncSlot(M.opt[ek - Len(M.mand)], ProjH.opt[ek - Len(M.mand)]))
           /\ ek' = ek + 1
           /\ UNCHANGED <<vars, cells, refs, scr, msg0>>
HNext == \/ (GStepMand /\ UNCHANGED dvars /\ UNCHANGED hvars)
         \/ (GStepOpt /\ UNCHANGED dvars /\ UNCHANGED hvars)
         \/ (GFinish /\ cells' = <<inp>> /\ refs' = NoRefs /\ UNCHANGED <<scr, out, ek, msg0>>)
         \/ (GRun /\ scr = "none" /\ ek = 0 /\ HFollow /\ UNCHANGED <<scr, out, ek, msg0>>)
         \/ ScribbleInput \/ ScribbleMsg \/ EncStart \/ EncStep
HSpec == (Init /\ HInit) /\ [][HNext]_allvars

\* ---- decode purity
InputNeverWritten == (gphase = "run" /\ scr # "input") => cells[1] = inp
NoAlias == \A x \in DOMAIN refs : refs[x] # 1
FreshCells == \A x, y \in DOMAIN refs : (x # y) => refs[x] # refs[y]
HeapAgrees == (gphase = "run" /\ scr = "none") => (ProjH.mand = dmand /\ ProjH.opt = dopt)
ScribbleInputHarmless == scr = "input" => (ProjH.mand = dmand /\ ProjH.opt = dopt)
ScribbleMsgHarmless == scr = "msg" => cells[1] = inp
\* ---- encode purity
OutOnlyGrows == [][IsPrefix(out, out')]_out
MsgUntouchedByEncode == ek >= 1 => ProjH = msg0
EncodeResult == (ek = NSlots + 1 /\ ek > 1) => \E pn \in {0, 1, 17} : out = Pre(pn) \o Encode(M, [mand |-> dmand, opt |-> dopt])
==============================================================================
