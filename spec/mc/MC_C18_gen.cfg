SPECIFICATION Spec
CONSTANTS
  Thorough = FALSE
  CutAll = 170
  BigLimit = 400
INVARIANT Emit
CHECK_DEADLOCK FALSE
