SPECIFICATION Spec
CONSTANTS
  Thorough = FALSE
  CutAll = 170
  BigLimit = 400
INVARIANTS GenSane Emit
CHECK_DEADLOCK FALSE
