SPECIFICATION Spec
CONSTANTS Ids = {0, 65535} Lens = {0, 1, 255} MaxUnits = 2 Alphabet = {0, 1, 128, 255} MaxFree = 4
PROPERTIES Terminates MeasureDecreases
