SPECIFICATION Spec
CONSTANTS Ids = {0, 65535} Lens = {0, 1, 2} MaxUnits = 3 Alphabet = {128} MaxFree = 0
INVARIANTS TypeOK Accounting MeasureBounded UnitsInInput Ordered AgreesWithGrammar RoundTrip Truncated FirstOctet ExactIffWhole ExactAccepted
PROPERTIES MeasureDecreases PerCycle
