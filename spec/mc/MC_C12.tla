---- MODULE MC_C12 ----
(* Stage A for C12: the laws of Identity.tla on exhaustively enumerated domains.
   The state is a node <<fam, x>> of an enumeration tree (root -> family -> partial value -> value);
   the invariant Laws is evaluated at every leaf.  Domains:
     plmn   all 1000 MCC x all 100 two-digit and 1000 three-digit MNC            (1 100 000 values)
     amf    Regions x all 1024 set ids x all 64 pointers                          (|Regions| * 65 536)
     guti   boundary PLMNs x boundary AMF ids x boundary TMSIs  (+ every single-character corruption of the text)
     stmsi  boundary set ids x pointers x TMSIs
     suci   boundary PLMNs x every routing indicator of 1..4 digits over RiDigits x schemes x key ids x outputs
     nai    octet strings of several lengths
     pei    IMEI / IMEISV: every position x every digit around two base numbers; generic packing for 1..17 digits *)
EXTENDS Identity, TLC
CONSTANTS Regions, RiDigits, PlmnMccs, Deep      \* Deep = FALSE trims the guti / suci cross products (quick tier)
VARIABLES fam, x
vars == <<fam, x>>
AllMcc   == 0..999
RegQuick == {0, 202, 255}
RegFull  == {0, 1, 127, 128, 202, 255}
RiQuick  == {0, 9}
RiFull   == {0, 5, 9}

Num3(n) == <<n \div 100, (n \div 10) % 10, n % 10>>
Num2(n) == <<n \div 10, n % 10>>
MncOf(i) == IF i < 100 THEN Num2(i) ELSE Num3(i - 100)          \* index 0..1099
P(mcc, mnc) == [mcc |-> mcc, mnc |-> mnc]

PlmnB == << P(<<0,0,0>>, <<0,0>>), P(<<9,9,9>>, <<9,9>>), P(<<2,0,8>>, <<9,3>>), P(<<4,6,6>>, <<0,1,1>>),
            P(<<0,0,1>>, <<0,0,1>>), P(<<9,9,9>>, <<9,9,9>>), P(<<1,2,3>>, <<4,5,6>>), P(<<3,1,0>>, <<4,1,0>>) >>
RegB  == <<0, 1, 127, 128, 202, 255>>
SetB  == <<0, 1, 2, 3, 4, 5, 255, 256, 511, 512, 1016, 1020, 1022, 1023>>
PtrB  == <<0, 1, 31, 32, 62, 63>>
TmsiB == << <<0,0,0,0>>, <<0,0,0,1>>, <<0,0,1,0>>, <<0,1,0,0>>, <<1,0,0,0>>, <<127,255,255,255>>, <<128,0,0,0>>,
            <<255,255,255,255>>, <<222,173,190,239>>, <<18,52,86,120>> >>
SchemeB == <<0, 1, 2, 3, 10, 15>>
PkiB    == <<0, 1, 9, 10, 99, 100, 255>>
RiAll   == UNION {[1..n -> RiDigits] : n \in 1..4}
MsinB   == {[i \in 1..n |-> (i * k + j) % 10] : n \in 1..10, k \in {0, 1, 3}, j \in {0, 9}}
OutB    == { <<0>>, <<255>>, <<1, 2, 3>>, <<171, 205, 239, 1, 35>>, [i \in 1..40 |-> (7 * i) % 256] }
NaiB    == { <<0>>, <<255>>, <<117, 115, 101, 114, 64, 114, 101, 97, 108, 109>>, [i \in 1..64 |-> (37 * i) % 256] }
ImeiBase   == <<4,9,0,1,5,4,2,0,3,2,3,7,5,1,8>>
ImeisvBase == <<3,5,2,0,9,9,0,0,1,7,6,1,4,8,2,3>>

\* ------------------------------------------------------------------ laws
G == 103     \* 'g': neither a digit nor a hex digit
Corrupt(t, i, c) == [t EXCEPT ![i] = c]
Upper(t) == [i \in 1..Len(t) |-> IF t[i] \in 97..102 THEN t[i] - 32 ELSE t[i]]

PlmnLaw(p) ==
  LET w == PlmnToWire(p)  rw == PlmnFromWire(w)
      t == PlmnToText(p)  rt == PlmnFromText(t)
      r2 == PlmnFromTexts(MccText(p), MncText(p))
  IN /\ PlmnOK(p)
     /\ Len(w) = 3 /\ IsOctetSeq(w) /\ rw.ok /\ rw.v = p
     /\ Len(t) = 3 + Len(p.mnc) /\ rt.ok /\ rt.v = p
     /\ r2.ok /\ r2.v = p
     /\ PlmnToWire(rt.v) = w                      \* text -> wire -> text and wire -> text -> wire
     /\ PlmnToText(rw.v) = t
     \* the filler marks exactly the two-digit MNCs
     /\ (Hi(w[2]) = 15) = (Len(p.mnc) = 2)

AmfLaw(a) ==
  LET w == AmfToWire(a)  t == AmfToText(a)  rt == AmfFromText(t) IN
  /\ AmfOK(a) /\ Len(w) = 3 /\ IsOctetSeq(w)
  /\ AmfFromWire(w) = a
  /\ WireNumber(w) = AmfNumber(a)                \* the three octets are the 24-bit number region|set|pointer
  /\ Len(t) = 6 /\ rt.ok /\ rt.v = a
  /\ AmfFromText(Upper(t)).ok /\ AmfFromText(Upper(t)).v = a
  /\ AmfToText(rt.v) = t

BadGutiTexts(t) ==
  {Corrupt(t, i, G) : i \in 1..Len(t)} \cup {Corrupt(t, i, 97) : i \in 1..(Len(t) - 14)}
  \cup {Corrupt(t, i, Dash) : i \in 1..Len(t)}
  \cup {SubSeq(t, 1, 18), t \o <<48, 48>>, <<>>, SubSeq(t, 1, 11)}
GutiLaw(g) ==
  LET w == GutiToWire(g)  rw == GutiFromWire(w)
      t == GutiToText(g)  rt == GutiFromText(t) IN
  /\ GutiOK(g)
  /\ Len(w) = 11 /\ IsOctetSeq(w) /\ w[1] = 242 /\ rw.ok /\ rw.v = g
  /\ Len(t) = 17 + Len(g.plmn.mnc) /\ rt.ok /\ rt.v = g
  /\ GutiToWire(rt.v) = w /\ GutiToText(rw.v) = t
  /\ GutiFromText(Upper(t)).ok /\ GutiFromText(Upper(t)).v = g
  /\ \A b \in BadGutiTexts(t) : ~GutiFromText(b).ok
  /\ ~GutiFromWire(SubSeq(w, 1, 10)).ok /\ ~GutiFromWire(w \o <<0>>).ok

STmsiLaw(s) ==
  LET w == STmsiToWire(s)  rw == STmsiFromWire(w)
      t == STmsiToText(s)  rt == STmsiFromText(t) IN
  /\ Len(w) = 7 /\ IsOctetSeq(w) /\ w[1] = 244 /\ rw.ok /\ rw.v = s
  /\ Len(t) = 12 /\ rt.ok /\ rt.v = s
  /\ t = HexText(SubSeq(w, 2, 7))
  /\ \A i \in 1..12 : ~STmsiFromText(Corrupt(t, i, G)).ok

SuciLaw(s, corrupt) ==          \* corrupt: also try every single-character corruption of the text (costly)
  LET w == SuciToWire(s)  rw == SuciFromWire(w)
      t == SuciToText(s)  rt == SuciFromText(t) IN
  /\ SuciOK(s)
  /\ IsOctetSeq(w) /\ rw.ok /\ rw.v = s
  /\ rt.ok /\ rt.v = s
  /\ SuciToWire(rt.v) = w /\ SuciToText(rw.v) = t
  /\ (s.fmt = 0 => (Len(w) >= 9 /\ w[1] = 1 /\ w[7] = s.scheme /\ w[8] = s.pki))
  /\ (s.fmt = 1 => (Len(w) >= 2 /\ w[1] = 17))
  /\ corrupt => \A i \in 1..Len(t) : ~SuciFromText(Corrupt(t, i, G)).ok
  /\ corrupt => \A i \in 1..Len(t) : t[i] # Dash => ~SuciFromText(Corrupt(t, i, Dash)).ok

PeiLaw(p) ==
  LET w == PeiToWire(p)  rw == PeiFromWire(w)
      t == PeiToText(p)  rt == PeiFromText(t) IN
  /\ PeiOK(p)
  /\ IsOctetSeq(w) /\ Len(w) = (IF p.kind = "imei" THEN 8 ELSE 9) /\ rw.ok /\ rw.v = p
  /\ rt.ok /\ rt.v = p
  /\ PeiToWire(rt.v) = w /\ PeiToText(rw.v) = t
  /\ \A i \in 1..Len(t) : ~PeiFromText(Corrupt(t, i, G)).ok
  /\ ~PeiFromText(t \o <<48>>).ok /\ ~PeiFromText(SubSeq(t, 1, Len(t) - 1)).ok
\* the packing rule for any number of digits (odd/even indication, filler)
PackLaw(ds) ==
  LET w == PeiPack(3, ds)  u == PeiUnpack(w) IN
  /\ Len(w) = 1 + (Len(ds) \div 2) /\ IsOctetSeq(w) /\ u.ok /\ u.v = ds
  /\ ((w[1] \div 8) % 2 = 1) = (Len(ds) % 2 = 1)
  /\ (Len(ds) % 2 = 0 => Hi(w[Len(w)]) = 15)
BcdLaw(ds) == LET u == BcdUnpack(BcdPack(ds)) IN u.ok /\ u.v = ds /\ Len(BcdPack(ds)) = (Len(ds) + 1) \div 2

\* ------------------------------------------------------------------ published examples (DESIGN.md Appendix A; TS 24.008 fig. 10.5.3)
Txt(s) == s
ASSUME PlmnToWire(P(<<2,0,8>>, <<9,3>>)) = <<2, 248, 57>>                       \* 208/93  -> 02 F8 39
ASSUME PlmnToWire(P(<<4,6,6>>, <<0,1,1>>)) = <<100, 22, 16>>                    \* 466/011 -> 64 16 10
ASSUME AmfFromText(<<99, 97, 102, 101, 48, 48>>).v = <<202, 1016, 0>>           \* "cafe00"
ASSUME AmfToText(<<202, 1016, 0>>) = <<99, 97, 102, 101, 48, 48>>
ASSUME AmfToWire(<<1, 1, 1>>) = <<1, 0, 65>>                                    \* set 1, pointer 1 -> 00 | 01 000001
\* suci-0-208-93-0-0-0-00007487  <->  01 02f839 f0ff 00 00 00004778
ASSUME SuciToWire([fmt |-> 0, plmn |-> P(<<2,0,8>>, <<9,3>>), ri |-> <<0>>, scheme |-> 0, pki |-> 0, out |-> <<0,0,0,0,7,4,8,7>>])
         = <<1, 2, 248, 57, 240, 255, 0, 0, 0, 0, 71, 120>>
ASSUME SuciToText([fmt |-> 0, plmn |-> P(<<2,0,8>>, <<9,3>>), ri |-> <<0>>, scheme |-> 0, pki |-> 0, out |-> <<0,0,0,0,7,4,8,7>>])
         = <<115,117,99,105,45,48,45,50,48,56,45,57,51,45,48,45,48,45,48,45,48,48,48,48,55,52,56,55>>
\* IMEI 490154203237518: 4|1|011, 09, 51, 24, 30, 32, 57, 81
ASSUME PeiToWire([kind |-> "imei", digits |-> ImeiBase]) = <<75, 9, 81, 36, 48, 50, 87, 129>>
ASSUME PeiToWire([kind |-> "imeisv", digits |-> ImeisvBase])[9] = 16 * 15 + 3 /\ PeiToWire([kind |-> "imeisv", digits |-> ImeisvBase])[1] = 16 * 3 + 5
\* 5G-GUTI 208/93, AMF cafe00, TMSI 00000001
ASSUME GutiToWire([plmn |-> P(<<2,0,8>>, <<9,3>>), amf |-> <<202, 1016, 0>>, tmsi |-> <<0,0,0,1>>])
         = <<242, 2, 248, 57, 202, 254, 0, 0, 0, 0, 1>>

\* ------------------------------------------------------------------ enumeration tree
Idx(s) == 1..Len(s)
Sub(s, small) == IF Deep THEN 1..Len(s) ELSE small
Init == fam = "root" /\ x = <<>>
Fams == {"plmn", "amf", "guti", "stmsi", "suci", "nai", "pei", "pack"}
Next ==
  \/ fam = "root" /\ \E f \in Fams : fam' = f /\ x' = <<>>
  \/ fam = "plmn" /\ x = <<>> /\ \E m \in PlmnMccs : x' = <<m>> /\ UNCHANGED fam             \* the leaf quantifies over all 1100 MNCs
  \/ fam = "amf" /\ x = <<>> /\ \E r \in Regions, s \in 0..1023 : x' = <<r, s>> /\ UNCHANGED fam  \* the leaf quantifies over all 64 pointers
  \/ fam = "guti" /\ x = <<>> /\ \E i \in Idx(PlmnB), r \in Sub(RegB, {1, 5, 6}) : x' = <<i, r>> /\ UNCHANGED fam
  \/ fam = "guti" /\ Len(x) = 2 /\ \E s \in Idx(SetB), p \in Sub(PtrB, {1, 2, 6}), m \in Sub(TmsiB, {1, 2, 6, 8, 9}) : x' = <<x[1], x[2], s, p, m>> /\ UNCHANGED fam
  \/ fam = "stmsi" /\ x = <<>> /\ \E s \in Idx(SetB), p \in Idx(PtrB), m \in Idx(TmsiB) : x' = <<s, p, m>> /\ UNCHANGED fam
  \/ fam = "suci" /\ x = <<>> /\ \E i \in Sub(PlmnB, {1, 2, 3, 4}), ri \in RiAll : x' = <<i, ri>> /\ UNCHANGED fam
  \/ fam = "suci" /\ Len(x) = 2 /\ \E sc \in Idx(SchemeB), k \in Idx(PkiB) :
        \E o \in (IF SchemeB[sc] = 0 THEN MsinB ELSE OutB) : x' = <<x[1], x[2], SchemeB[sc], PkiB[k], o>> /\ UNCHANGED fam
  \/ fam = "nai" /\ x = <<>> /\ \E o \in NaiB : x' = <<o>> /\ UNCHANGED fam
  \/ fam = "pei" /\ x = <<>> /\ \E k \in {"imei", "imeisv"}, i \in 1..16, d \in 0..9 : (k = "imei" => i <= 15) /\ x' = <<k, i, d>> /\ UNCHANGED fam
  \/ fam = "pack" /\ x = <<>> /\ \E n \in 1..17, k \in {1, 3, 7}, j \in {0, 9} : x' = <<[i \in 1..n |-> (i * k + j) % 10]>> /\ UNCHANGED fam
Spec == Init /\ [][Next]_vars

GutiAt(y) == [plmn |-> PlmnB[y[1]], amf |-> <<RegB[y[2]], SetB[y[3]], PtrB[y[4]]>>, tmsi |-> TmsiB[y[5]]]
SuciAt(y) == [fmt |-> 0, plmn |-> PlmnB[y[1]], ri |-> y[2], scheme |-> y[3], pki |-> y[4], out |-> y[5]]
PeiAt(y)  == [kind |-> y[1], digits |-> [(IF y[1] = "imei" THEN ImeiBase ELSE ImeisvBase) EXCEPT ![y[2]] = y[3]]]

Laws ==
  CASE fam = "plmn" /\ Len(x) = 1 -> \A i \in 0..1099 : PlmnLaw(P(Num3(x[1]), MncOf(i)))
    [] fam = "amf" /\ Len(x) = 2  -> \A p \in 0..63 : AmfLaw(<<x[1], x[2], p>>)
    [] fam = "guti" /\ Len(x) = 5 -> GutiLaw(GutiAt(x))
    [] fam = "stmsi" /\ Len(x) = 3 -> STmsiLaw([set |-> SetB[x[1]], pointer |-> PtrB[x[2]], tmsi |-> TmsiB[x[3]]])
    [] fam = "suci" /\ Len(x) = 5 -> SuciLaw(SuciAt(x), x[1] <= 2 /\ x[4] = 255)
    [] fam = "nai" /\ Len(x) = 1  -> SuciLaw(Nai(x[1]), TRUE)
    [] fam = "pei" /\ Len(x) = 3  -> PeiLaw(PeiAt(x))
    [] fam = "pack" /\ Len(x) = 1 -> PackLaw(x[1]) /\ BcdLaw(x[1])
    [] OTHER -> TRUE
====
