SPECIFICATION GSpec
CONSTANTS
  NssaiDepth = 3
  TaiDepth = 3
  Big = FALSE
INVARIANTS Emit
CHECK_DEADLOCK FALSE
