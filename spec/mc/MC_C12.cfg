SPECIFICATION Spec
CONSTANTS
  Regions <- RegQuick
  RiDigits <- RiQuick
  PlmnMccs <- AllMcc
INVARIANTS Laws
CHECK_DEADLOCK FALSE
