SPECIFICATION Spec
CONSTANTS
  Regions <- RegQuick
  RiDigits <- RiQuick
  PlmnMccs <- AllMcc
  Deep = FALSE
INVARIANTS Laws
CHECK_DEADLOCK FALSE
