SPECIFICATION Spec
CONSTANTS MaxComps = 3 MaxParams = 4 UnkComp = {0, 2, 33, 35, 136, 255} UnkParam = {0, 8, 255} FullUnk = {}
INVARIANTS TypeOK MeasureBounded AgreesWithGrammar RoundTrip PrefixLaw UnknownIsError Canonical WellFormedCases
PROPERTIES MeasureDecreases
