SPECIFICATION Spec
CONSTANTS MaxOctets = 67 BigOctets = {255, 256, 1023, 1024, 4095, 4096, 8193, 65537} BoundAlgs = {0, 1, 2, 3, 4, 5, 127, 128, 255} BoundBearers = {0, 1, 30, 31, 32, 33, 63, 64, 128, 255} BoundDirs = {0, 1, 2, 3, 128, 255}
INVARIANTS WellFormed Emit
CHECK_DEADLOCK FALSE
