SPECIFICATION HSpec
CONSTANTS MaxOpt = 1 MsgLo = 1 MsgHi = 45
INVARIANTS InputNeverWritten NoAlias FreshCells HeapAgrees ScribbleInputHarmless ScribbleMsgHarmless MsgUntouchedByEncode EncodeResult
PROPERTY OutOnlyGrows
CHECK_DEADLOCK FALSE
