------------------------------- MODULE MC_C05 -------------------------------
(* Exhaustive dispatch cube: entry point x discriminator octet x type octet x type offset.
   Stage A: DispatchLaw - the table-driven decoder accepts the minimal instance of the routed message, names exactly
   that message, and rejects everything that routes nowhere.  Stage B: every point is printed as a case. *)
EXTENDS NasDispatch, Json, TLC
CONSTANTS B1, T
Fills == {<<0, 0>>, <<5, 7>>, <<254, 1>>}      \* values of the header octets that routing must ignore
VARIABLES entry, b1, t, at, fill
vars == <<entry, b1, t, at, fill>>
Init == entry \in {"plain", "gmm", "gsm"} /\ b1 \in B1 /\ t \in T /\ at \in {3, 4} /\ fill \in Fills
Next == UNCHANGED vars
Spec == Init /\ [][Next]_vars
Probe == <<b1, fill[1], (IF at = 3 THEN t ELSE fill[2]), (IF at = 4 THEN t ELSE fill[2])>>
C == Route(entry, Probe)
Inp == IF C = {} THEN Probe \o <<0, 0, 0, 0>> ELSE MinimalMsg(Msgs[CHOOSE i \in C : TRUE], b1, fill[1], fill[2])
DispatchLaw ==
  LET r == DecodeEntry(entry, "", Inp) IN
  /\ Cardinality(C) <= 1
  /\ (C = {} => (~r.ok /\ r.msg = "none" /\ ~DecodeEntry(entry, "", Probe).ok))
  /\ (C # {} => LET M == Msgs[CHOOSE i \in C : TRUE] IN
                /\ r.ok /\ r.msg = M.name
                /\ \A k \in 1..HdrLen(M) : r.mand[k].v = <<Inp[k]>>
                /\ (M.fam = "GMM" => Inp[3] = t /\ at = 3) /\ (M.fam = "GSM" => Inp[4] = t /\ at = 4))
Out == PrintT(ToJson([entry |-> entry, inp |-> Inp, routed |-> C # {}]))
==============================================================================
