SPECIFICATION Spec
CONSTANTS SqnMod = 4 OvfMod = 3 Ctx <- CtxNea0 Msgs = {1, 2} Starts = {5, 8, 10} NetCap = 2 MaxSent = 3 EnvBudget = 3
          Env <- EnvAll Skips = {1, 3, 4} MaxLead = 100 AllowWrap = FALSE Bits <- BitsSmall ReflectCounts <- NoCounts RefuseWrap = TRUE
INVARIANTS TypeOK Authenticity NoReplay NoReorderAcceptOld TamperRejected ReceiverNotAhead
PROPERTIES CountMonotone RejectIsNoOp
CHECK_DEADLOCK FALSE
