---- MODULE MC_C12_gen ----
(* Stage B for C12: TLC produces the conformance cases from the case structure of Identity.tla.
   Each leaf of the enumeration tree is one case {fam, w (wire octets), n (numbers), ts (texts)}, computed with the
   specification's To-operators and printed as JSON; the driver replays every function of observe_at on it.
     plmn     all MCC x boundary MNC  and  all MNC (2- and 3-digit) x boundary MCC
     amf      boundary region x set x pointer;   badamf: every proper prefix, extensions, single-character corruptions
     guti     boundary PLMN x AMF id x TMSI;     badguti: the invalid texts of MC_C12!BadGutiTexts
     stmsi    boundary set x pointer x TMSI
     suci     PLMN x routing indicators of 1..4 digits x schemes 0,1,2,unknown x key ids x MSIN lengths 1..10 / outputs; NAI
     pei      IMEI (15) / IMEISV (16): every position x every digit *)
EXTENDS MC_C12, Json
CONSTANT Big          \* FALSE: quick tier, TRUE: thorough tier

Pick(s, small) == IF Big THEN 1..Len(s) ELSE small
MncBIdx == IF Big THEN {0, 1, 9, 10, 93, 99, 100, 101, 111, 199, 200, 510, 1099} ELSE {0, 9, 93, 99, 100, 111, 1099}   \* index into MncOf
MccBnd  == IF Big THEN {0, 1, 208, 466, 909, 999} ELSE {0, 208, 999}
GPlmn   == Pick(PlmnB, {3, 4, 1, 6})
GReg    == Pick(RegB, {1, 5, 6})
GSet    == Pick(SetB, {1, 2, 4, 8, 11, 14})
GPtr    == Pick(PtrB, {1, 2, 6})
GTmsi   == Pick(TmsiB, {1, 2, 6, 8, 9})
GScheme == IF Big THEN {0, 1, 2, 3, 9, 10, 15} ELSE {0, 1, 2, 3, 15}
GPki    == IF Big THEN {0, 1, 9, 10, 99, 100, 255} ELSE {0, 27, 255}
GMsin   == {[i \in 1..n |-> (i * k + j) % 10] : n \in 1..10, k \in (IF Big THEN {0, 1, 3} ELSE {1}), j \in {0, 9}}
GOut    == IF Big THEN OutB ELSE { <<0>>, <<171, 205, 239, 1, 35>>, [i \in 1..40 |-> (7 * i) % 256] }
GSuciPlmn == IF Big THEN {1, 3, 4, 6} ELSE {3, 4}

BadAmfTexts(t) ==
  {SubSeq(t, 1, k) : k \in 0..5} \cup {t \o <<48>>, t \o <<48, 48>>, t \o t}
  \cup {Corrupt(t, i, G) : i \in 1..6} \cup {Corrupt(t, i, 32) : i \in 1..6} \cup {Corrupt(t, i, 45) : i \in 1..6}

GInit == fam = "root" /\ x = <<>>
GFams == {"plmn", "amf", "badamf", "guti", "badguti", "stmsi", "suci", "nai", "pei"}
GNext ==
  \/ fam = "root" /\ \E f \in GFams : fam' = f /\ x' = <<>>
  \/ fam = "plmn" /\ x = <<>> /\ \E m \in 0..999, i \in MncBIdx : x' = <<m, i>> /\ UNCHANGED fam
  \/ fam = "plmn" /\ x = <<>> /\ \E m \in MccBnd, i \in 0..1099 : x' = <<m, i>> /\ UNCHANGED fam
  \/ fam = "amf" /\ x = <<>> /\ \E r \in Idx(RegB), s \in Idx(SetB), p \in Idx(PtrB) : x' = <<RegB[r], SetB[s], PtrB[p]>> /\ UNCHANGED fam
  \/ fam = "badamf" /\ x = <<>> /\ \E a \in {<<202, 1016, 0>>, <<0, 0, 0>>, <<255, 1023, 63>>, <<18, 209, 22>>} :
        \E b \in BadAmfTexts(AmfToText(a)) : x' = <<b>> /\ UNCHANGED fam
  \/ fam = "guti" /\ x = <<>> /\ \E i \in GPlmn, r \in GReg : x' = <<i, r>> /\ UNCHANGED fam
  \/ fam = "guti" /\ Len(x) = 2 /\ \E s \in GSet, p \in GPtr, m \in GTmsi : x' = <<x[1], x[2], s, p, m>> /\ UNCHANGED fam
  \/ fam = "badguti" /\ x = <<>> /\ \E i \in {3, 4}, m \in {8, 9} : x' = <<i, 5, 11, 2, m>> /\ UNCHANGED fam
  \/ fam = "badguti" /\ Len(x) = 5 /\ \E b \in BadGutiTexts(GutiToText(GutiAt(x))) : x' = <<b>> /\ UNCHANGED fam
  \/ fam = "stmsi" /\ x = <<>> /\ \E s \in Idx(SetB), p \in Idx(PtrB), m \in GTmsi : x' = <<s, p, m>> /\ UNCHANGED fam
  \/ fam = "suci" /\ x = <<>> /\ \E i \in GSuciPlmn, ri \in RiAll : x' = <<i, ri>> /\ UNCHANGED fam
  \/ fam = "suci" /\ Len(x) = 2 /\ \E sc \in GScheme, k \in GPki :
        \E o \in (IF sc = 0 THEN GMsin ELSE GOut) : x' = <<x[1], x[2], sc, k, o>> /\ UNCHANGED fam
  \/ fam = "nai" /\ x = <<>> /\ \E o \in NaiB : x' = <<o>> /\ UNCHANGED fam
  \/ fam = "pei" /\ x = <<>> /\ \E k \in {"imei", "imeisv"}, i \in 1..16, d \in 0..9 : (k = "imei" => i <= 15) /\ x' = <<k, i, d>> /\ UNCHANGED fam
GSpec == GInit /\ [][GNext]_vars

Case(f, w, n, ts) == [fam |-> f, w |-> w, n |-> n, ts |-> ts]
CaseOf ==
  CASE fam = "plmn" /\ Len(x) = 2 -> LET p == P(Num3(x[1]), MncOf(x[2])) IN Case("plmn", PlmnToWire(p), <<>>, <<MccText(p), MncText(p)>>)
    [] fam = "amf" /\ Len(x) = 3 -> Case("amf", <<>>, x, <<AmfToText(x)>>)
    [] fam = "badamf" /\ Len(x) = 1 -> Case("badamf", <<>>, <<>>, <<x[1]>>)
    [] fam = "guti" /\ Len(x) = 5 -> Case("guti", GutiToWire(GutiAt(x)), <<>>, <<GutiToText(GutiAt(x))>>)
    [] fam = "badguti" /\ Len(x) = 1 -> Case("badguti", <<>>, <<>>, <<x[1]>>)
    [] fam = "stmsi" /\ Len(x) = 3 -> Case("stmsi", STmsiToWire([set |-> SetB[x[1]], pointer |-> PtrB[x[2]], tmsi |-> TmsiB[x[3]]]), <<>>, <<>>)
    [] fam = "suci" /\ Len(x) = 5 -> Case("suci", SuciToWire(SuciAt(x)), <<>>, <<SuciToText(SuciAt(x))>>)
    [] fam = "nai" /\ Len(x) = 1 -> Case("suci", SuciToWire(Nai(x[1])), <<>>, <<SuciToText(Nai(x[1]))>>)
    [] fam = "pei" /\ Len(x) = 3 -> Case("pei", PeiToWire(PeiAt(x)), <<>>, <<PeiToText(PeiAt(x))>>)
    [] OTHER -> Case("", <<>>, <<>>, <<>>)
IsLeaf == CaseOf.fam # ""
Emit == IsLeaf => PrintT(ToJson(CaseOf))
====
