----------------------------- MODULE MC_C08_gen -----------------------------
(* Stage B generator for C08: TLC enumerates call histories that exercise each law of SecurityApi at every
   payload length 0..MaxOctets and prints them as JSON (one history = a sequence of Load / Encrypt / Mac
   operations on payload cells).  Families, following the laws of the specification:
     invol      Load p; Encrypt q; Encrypt q; with MACs before, between and after       (Involution, MacPure)
     prefix     Load p in cell 1, a prefix of p in cell 2; Encrypt q on both             (PrefixStable)
     twoplain   two different payloads of equal length, same point                       (KsIndependent)
     interleave q, q2, q, q2 where q2 differs from q in exactly one parameter            (Accounting: streams commute)
     guard      one loaded cell, then every boundary (alg, bearer, direction) combination  (GuardExact, ErrUntouched)
     nil        nil payload, every algorithm, both calls
     empty      empty non-nil payload, every algorithm, both calls
   Keys / counts / payload patterns are identifiers: 0 all-zero, 1 all-one, >= 2 seeded random material drawn by
   the driver; payload pattern p of length n is the n-octet prefix of base sequence p (prefix-closed). *)
EXTENDS Integers, Sequences, Json, TLC
CONSTANTS MaxOctets, BigOctets, BoundAlgs, BoundBearers, BoundDirs
VARIABLE h
Op(op, c, alg, key, cnt, bearer, dir, n, pat, isnil) ==
  [op |-> op, cell |-> c, alg |-> alg, key |-> key, cnt |-> cnt, bearer |-> bearer, dir |-> dir, len |-> n, pat |-> pat, nil |-> isnil]
Load(c, n, pat) == Op("Load", c, 0, 0, 0, 0, 0, n, pat, FALSE)
LoadNil(c) == Op("Load", c, 0, 0, 0, 0, 0, 0, 0, TRUE)
Pt(alg, key, cnt, bearer, dir) == [alg |-> alg, key |-> key, cnt |-> cnt, bearer |-> bearer, dir |-> dir]
Enc(c, q) == Op("Encrypt", c, q.alg, q.key, q.cnt, q.bearer, q.dir, 0, 0, FALSE)
Mac(c, q) == Op("Mac", c, q.alg, q.key, q.cnt, q.bearer, q.dir, 0, 0, FALSE)
Lens == (0..MaxOctets) \cup BigOctets
\* the point used for a given algorithm and length: bearer and direction sweep their whole range over the lengths
Q(alg, n) == Pt(alg, 2 + (n % 3), 2 + (n % 2), (n * 11 + alg) % 32, (n + alg) % 2)
Vary(q, k) == CASE k = 1 -> [q EXCEPT !.key = q.key + 5]
                [] k = 2 -> [q EXCEPT !.cnt = q.cnt + 5]
                [] k = 3 -> [q EXCEPT !.bearer = (q.bearer + 1) % 32]
                [] k = 4 -> [q EXCEPT !.dir = 1 - q.dir]
                [] k = 5 -> [q EXCEPT !.alg = (q.alg % 3) + 1]
Invol == {<<Load(1, n, 2 + (n % 2)), Mac(1, Q(a, n)), Enc(1, Q(a, n)), Mac(1, Q(a, n)), Enc(1, Q(a, n)), Mac(1, Q(a, n))>> : a \in 0..3, n \in Lens}
PrefixLens(n) == {m \in {0, 1, n \div 2, n - 1} : m >= 0 /\ m <= n}
PrefixH == UNION {{<<Load(1, n, 2), Load(2, m, 2), Enc(1, Q(a, n)), Enc(2, Q(a, n)), Enc(2, Q(a, n)), Enc(1, Q(a, n))>> : m \in PrefixLens(n)} : a \in 0..3, n \in Lens}
TwoPlain == {<<Load(1, n, p[1]), Load(2, n, p[2]), Enc(1, Q(a, n)), Enc(2, Q(a, n))>> : a \in 0..3, n \in Lens, p \in {<<2, 3>>, <<0, 1>>, <<1, 3>>}}
Interleave == {<<Load(1, n, 3), Enc(1, Q(a, n)), Enc(1, Vary(Q(a, n), k)), Enc(1, Q(a, n)), Enc(1, Vary(Q(a, n), k))>> :
                 a \in 1..3, k \in 1..5, n \in {1, 3, 4, 5, 16, 17, 33, MaxOctets}}
SeqOfSet(S) == LET RECURSIVE F(_) F(T) == IF T = {} THEN <<>> ELSE LET x == CHOOSE y \in T : TRUE IN <<x>> \o F(T \ {x}) IN F(S)
Guard == {<<Load(1, 5, 2)>> \o SeqOfSet({IF call = 1 THEN Enc(1, Pt(a, 2, 2, b, d)) ELSE Mac(1, Pt(a, 2, 2, b, d)) : b \in BoundBearers, d \in BoundDirs})
            : a \in BoundAlgs, call \in 1..2}
NilH == {<<LoadNil(1), Enc(1, Pt(a, 2, 2, b, 1)), Mac(1, Pt(a, 2, 2, b, 1)), Load(1, 3, 2), Enc(1, Pt(a, 2, 2, b, 1))>> : a \in BoundAlgs, b \in {0, 31, 32}}
EmptyH == {<<Load(1, 0, 2), Enc(1, Pt(a, k, 2, 7, d)), Mac(1, Pt(a, k, 2, 7, d)), Enc(1, Pt(a, k, 2, 7, d))>> : a \in BoundAlgs, k \in 0..2, d \in 0..1}
Histories == Invol \cup PrefixH \cup TwoPlain \cup Interleave \cup Guard \cup NilH \cup EmptyH
Init == h = <<>>
Next == h = <<>> /\ h' \in Histories
Spec == Init /\ [][Next]_h
Emit == h = <<>> \/ PrintT(ToJson(h))
WellFormed == h = <<>> \/ (h[1].op = "Load" /\ \A i \in DOMAIN h : h[i].op \in {"Load", "Encrypt", "Mac"})
=============================================================================
