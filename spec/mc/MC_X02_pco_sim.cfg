INIT PbInit
NEXT PbNext
CONSTANTS PbIps <- IpsAll PbMtus <- MtusAll PbMaxOps = 9
CHECK_DEADLOCK FALSE
