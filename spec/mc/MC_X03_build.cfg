SPECIFICATION Spec
INVARIANTS Out
CHECK_DEADLOCK FALSE
