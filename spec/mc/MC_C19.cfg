SPECIFICATION Spec
CONSTANTS Callers = {1, 2, 3} ProgLen = 3 UseMemo = FALSE
INVARIANT ResultsSequential
PROPERTIES GlobalsNeverWritten AllFinish
CHECK_DEADLOCK FALSE
