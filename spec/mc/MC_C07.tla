------------------------------- MODULE MC_C07 -------------------------------
(* Stage A for C07: the integrity reference (Gf64, Cmac, Eia over Snow3G / Zuc / Aes128) is validated on every
   run, independently of the Go code.  Each state is one proof obligation `item`; ItemOK must hold for all:
     * every published vector: UIA2/128-EIA1 sets (up to 16 448 bits), 128-EIA2 sets, 128-EIA3 sets,
       RFC 4493 CMAC examples and subkeys;
     * GF(2^64) laws, exhaustively on the basis: MUL64(x^i, x^j) = x^(i+j) mod (x^64+x^4+x^3+x+1) for all
       0 <= i, j < 64 (by bilinearity this determines the product), agreement of the Horner form with the
       standard's definition, commutativity and distributivity on mixed operands;
     * laws of the MAC functions for every message length 0..MaxBits and every algorithm: 4 octets, the
       empty-message value of EIA1 is the fifth keystream word, every single-bit flip and every change of
       LENGTH, DIRECTION, BEARER, COUNT or key changes the MAC, pad bits beyond LENGTH are ignored. *)
EXTENDS Eia, Json, TLC
CONSTANTS MaxBits
VARIABLE item
V1 == JsonDeserialize("eia1.json").cases
V2 == JsonDeserialize("eia2.json").cases
V3 == JsonDeserialize("eia3.json").cases
VA == JsonDeserialize("aes.json")
ZC == JsonDeserialize("zuc_corners.json")          \* frozen corner points of the ZUC arithmetic (tools/zuccorners)
IdxOf(s) == 1..Len(s)
Items ==
  ({"eia1"} \X IdxOf(V1) \X {0}) \cup ({"eia2"} \X IdxOf(V2) \X {0}) \cup ({"eia3"} \X IdxOf(V3) \X {0})
  \cup ({"cmac"} \X IdxOf(VA.cmac) \X {0}) \cup ({"subkeys"} \X IdxOf(VA.subkeys) \X {0})
  \cup ({"zuccorner"} \X {i \in IdxOf(ZC) : ZC[i].kind = "eia3"} \X {0})
  \cup ({"gfbasis"} \X (0..63) \X (0..63))
  \cup ({"gfmixed"} \X (1..24) \X (1..4))
  \cup ({"laws"} \X (0..3) \X (0..MaxBits))
One8 == <<0, 0, 0, 0, 0, 0, 0, 1>>
XPow(i) == MulXPow64(One8, i)                         \* x^i reduced
Unit(i) == [k \in 1..8 |-> IF k = 8 - (i \div 8) THEN 2^(i % 8) ELSE 0]      \* x^i for i < 64, unreduced
Pat(n, salt) == SubSeq([i \in 1..n |-> (i * 73 + salt * 151 + (i * i) * 31) % 256], 1, n)
LK == V1[2].key
LC == V3[2].cnt
FlipBit(m, b) == [m EXCEPT ![(b \div 8) + 1] = @ ^^ (2^(7 - (b % 8)))]
Laws(alg, n) ==
  LET nb == NBytes(n)
      d == MaskBits(Pat(nb, 3), n)
      mac == EIA(alg, LK, LC, 13, 1, d, n)
      usable == alg \in {1, 3} \/ n % 8 = 0               \* 128-EIA2 as specified for octet-aligned messages
  IN ~usable \/
     /\ IsOctets(mac, 4)
     /\ alg = 0 => mac = <<0, 0, 0, 0>>
     /\ (alg = 1 /\ n = 0) => mac = S3G!KeyStream(KeyW(LK), << <<13 * 8, 0, 128, 0>>, <<LC[1] ^^ 128, LC[2], LC[3], LC[4]>>, <<13 * 8, 0, 0, 0>>, LC >>, 5)[5]
     /\ alg # 0 =>
          /\ \A b \in {0, n \div 2, n - 1} : (b >= 0 /\ b < n) => EIA(alg, LK, LC, 13, 1, FlipBit(d, b), n) # mac
          /\ EIA(alg, LK, LC, 13, 0, d, n) # mac
          /\ EIA(alg, LK, LC, 12, 1, d, n) # mac
          /\ EIA(alg, LK, [LC EXCEPT ![4] = (@ + 1) % 256], 13, 1, d, n) # mac
          /\ EIA(alg, [LK EXCEPT ![16] = (@ + 1) % 256], LC, 13, 1, d, n) # mac
          /\ alg \in {1, 3} => EIA(alg, LK, LC, 13, 1, d \o (IF n % 8 = 0 THEN <<0>> ELSE <<>>), n + 1) # mac      \* LENGTH is authenticated
          /\ (alg \in {1, 3} /\ n % 8 # 0) => EIA(alg, LK, LC, 13, 1, [d EXCEPT ![nb] = @ + 1], n) = mac         \* pad bits ignored
ItemOK ==
  LET k == item[1]  i == item[2]  j == item[3] IN
  CASE k = "eia1" -> LET c == V1[i] IN EIA1(c.key, c.cnt, c.bearer, c.dir, c.data, c.nbits) = c.out
    [] k = "eia2" -> LET c == V2[i] IN EIA2(c.key, c.cnt, c.bearer, c.dir, c.data, c.nbits) = c.out
    [] k = "eia3" -> LET c == V3[i] IN EIA3(c.key, c.cnt, c.bearer, c.dir, c.data, c.nbits) = c.out
    [] k = "cmac" -> LET c == VA.cmac[i] IN CM!Cmac(c.key, c.data) = c.out
    [] k = "subkeys" -> LET c == VA.subkeys[i] IN CM!SubKey1(c.key) = c.k1 /\ CM!SubKey2(c.key) = c.k2
    [] k = "zuccorner" -> LET c == ZC[i] IN ZUC!CornerReached(c.key, EIA3iv(c.cnt, c.bearer, c.dir), c.clock, c.pred)
    [] k = "gfbasis" -> Mul64(Unit(i), Unit(j)) = XPow(i + j)
    [] k = "gfmixed" -> LET a == Pat(8, i)  b == Pat(8, i + 40 + j)  c == Pat(8, 7 * i + j) IN
                        /\ Mul64(a, b) = Mul64Def(a, b)
                        /\ Mul64(a, b) = Mul64(b, a)
                        /\ Mul64(XorS(a, c), b) = XorS(Mul64(a, b), Mul64(c, b))
                        /\ Mul64(a, One8) = a
                        /\ Mul64(a, Unit(1)) = MulX64(a)
    [] k = "laws" -> Laws(i, j)
    [] OTHER -> TRUE
NGroups == 24
Hash(it) == (it[2] * 7 + it[3] * 13 + Len(it[1])) % NGroups
Init == item = <<"root", 0, 0>>
Next == \/ item[1] = "root" /\ \E g \in 0..(NGroups - 1) : item' = <<"group", g, 0>>
        \/ item[1] = "group" /\ \E it \in Items : Hash(it) = item[2] /\ item' = it
Spec == Init /\ [][Next]_item
==============================================================================
