SPECIFICATION Spec
CONSTANTS Full = FALSE
INVARIANTS Laws
CHECK_DEADLOCK FALSE
