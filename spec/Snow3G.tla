------------------------------- MODULE Snow3G -------------------------------
(* SNOW 3G, written from "Specification of the 3GPP Confidentiality and Integrity Algorithms
   UEA2 & UIA2, Document 2: SNOW 3G Specification" (ETSI/SAGE v1.1): sections 3.3 (S-boxes via
   the Rijndael / Dickson S-box and MULx), 3.4 (LFSR, FSM, clocking), 4.1 (initialisation),
   4.2 (keystream).  A 32-bit word is <<b0,b1,b2,b3>>, b0 the most significant octet. *)
EXTENDS Integers, Sequences, Bitwise, CryptoTables
LOCAL INSTANCE SequencesExt       \* FoldLeft
XorW(a, b) == <<a[1] ^^ b[1], a[2] ^^ b[2], a[3] ^^ b[3], a[4] ^^ b[4]>>
AddW(a, b) == LET s4 == a[4] + b[4]
                  s3 == a[3] + b[3] + (s4 \div 256)
                  s2 == a[2] + b[2] + (s3 \div 256)
                  s1 == a[1] + b[1] + (s2 \div 256)
              IN <<s1 % 256, s2 % 256, s3 % 256, s4 % 256>>        \* addition modulo 2^32
NotW(a) == <<255 - a[1], 255 - a[2], 255 - a[3], 255 - a[4]>>
ZeroW == <<0, 0, 0, 0>>
\* 3.1.1 MULx
MulX(v, c) == IF v >= 128 THEN ((v * 2) % 256) ^^ c ELSE v * 2
\* 3.3.1 / 3.3.2: S1 uses the Rijndael S-box SR with c = 0x1B, S2 uses SQ with c = 0x69
SBox(T, c, w) == LET t1 == T[w[1]+1] t2 == T[w[2]+1] t3 == T[w[3]+1] t4 == T[w[4]+1]
                     m1 == MulX(t1, c) m2 == MulX(t2, c) m3 == MulX(t3, c) m4 == MulX(t4, c)
                 IN << (m1 ^^ t2) ^^ (t3 ^^ (m4 ^^ t4)),
                       (m1 ^^ t1) ^^ (m2 ^^ (t3 ^^ t4)),
                       (t1 ^^ m2) ^^ (t2 ^^ (m3 ^^ t4)),
                       (t1 ^^ t2) ^^ (m3 ^^ (t3 ^^ m4)) >>
S1(w) == SBox(SR, 27, w)
S2(w) == SBox(SQ, 105, w)
\* multiplication / division by alpha in GF(2^32) (3.4.2-3.4.4)
MulAlphaW(w) == XorW(<<w[2], w[3], w[4], 0>>, MULA[w[1]+1])
DivAlphaW(w) == XorW(<<0, w[1], w[2], w[3]>>, DIVA[w[4]+1])
\* state = [l |-> <<s0..s15>>, r |-> <<R1,R2,R3>>]
FsmOut(st) == XorW(AddW(st.l[16], st.r[1]), st.r[2])                                     \* F = (s15 + R1) xor R2
FsmNext(st) == << AddW(st.r[2], XorW(st.r[3], st.l[6])), S1(st.r[1]), S2(st.r[2]) >>     \* r = R2 + (R3 xor s5)
Feedback(l) == XorW(XorW(MulAlphaW(l[1]), l[3]), DivAlphaW(l[12]))                       \* alpha*s0 xor s2 xor alpha^-1*s11
Clock(st, init) == LET F == FsmOut(st)
                       v == IF init THEN XorW(Feedback(st.l), F) ELSE Feedback(st.l)
                   IN [l |-> Tail(st.l) \o <<v>>, r |-> FsmNext(st)]
RECURSIVE Iter(_,_,_)
Iter(st, n, init) == IF n = 0 THEN st ELSE Iter(Clock(st, init), n - 1, init)
\* 4.1: k = <<k0,k1,k2,k3>>, iv = <<IV0,IV1,IV2,IV3>> (words)
InitState(k, iv) ==
  [l |-> << NotW(k[1]), NotW(k[2]), NotW(k[3]), NotW(k[4]), k[1], k[2], k[3], k[4],
            NotW(k[1]), XorW(NotW(k[2]), iv[4]), XorW(NotW(k[3]), iv[3]), NotW(k[4]),
            XorW(k[1], iv[2]), k[2], k[3], XorW(k[4], iv[1]) >>,
   r |-> << ZeroW, ZeroW, ZeroW >>]
Ready(k, iv) == Clock(Iter(InitState(k, iv), 32, TRUE), FALSE)       \* 32 init clocks, one discarded keystream clock
\* 4.2: n keystream words z_1..z_n: z_t = F xor s0, then clock in keystream mode
KeyStream(k, iv, n) ==
  FoldLeft(LAMBDA a, t : [st |-> Clock(a.st, FALSE), out |-> Append(a.out, XorW(FsmOut(a.st), a.st.l[1]))],
           [st |-> Ready(k, iv), out |-> <<>>], SubSeq([t \in 1..n |-> t], 1, n)).out
=============================================================================
