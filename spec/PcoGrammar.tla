--------------------------- MODULE PcoGrammar ---------------------------
(* C16 - protocol configuration options, TS 24.008 10.5.6.3 (as used by TS 24.501 9.11.4.6):
     octet 1          1 (ext) | 0000 (spare) | 000 (configuration protocol)        = 0x80
     then, repeated:  container identifier (2 octets, big endian)
                      length of contents   (1 octet)
                      contents             (that many octets)
   This module is the DECLARATIVE grammar: Marshal, and the units of an octet string given by
   position arithmetic only.  The operational three-state reader is in Pco.tla, where TLC checks
   that the reader computes exactly these units.  No variables here: the trace specification
   uses this module as the oracle. *)
EXTENDS Integers, Sequences

ConfigOctet == 128

\* a unit is [id |-> 0..65535, len |-> 0..255, contents |-> Seq(0..255)], well formed when len = Len(contents)
WellFormedUnit(u) == /\ u.id \in 0..65535 /\ u.len \in 0..255 /\ Len(u.contents) = u.len
                     /\ \A i \in 1..Len(u.contents) : u.contents[i] \in 0..255
WellFormedList(us) == \A k \in 1..Len(us) : WellFormedUnit(us[k])

MarshalUnit(u) == <<u.id \div 256, u.id % 256, u.len>> \o u.contents
RECURSIVE MarshalUnits(_)
MarshalUnits(us) == IF us = <<>> THEN <<>> ELSE MarshalUnit(Head(us)) \o MarshalUnits(Tail(us))
Marshal(us) == <<ConfigOctet>> \o MarshalUnits(us)

\* ---- reading: a unit whose identifier starts at octet p (1-based) is COMPLETE in d when its
\*      identifier, length and all its contents lie inside d
HasUnit(d, p) == p + 2 <= Len(d) /\ p + 2 + d[p + 2] <= Len(d)
UnitAt(d, p)  == [id |-> d[p] * 256 + d[p + 1], len |-> d[p + 2], at |-> p + 3,
                  contents |-> SubSeq(d, p + 3, p + 2 + d[p + 2])]
NextUnit(d, p) == p + 3 + d[p + 2]
RECURSIVE UnitsFrom(_, _)
UnitsFrom(d, p) == IF HasUnit(d, p) THEN <<UnitAt(d, p)>> \o UnitsFrom(d, NextUnit(d, p)) ELSE <<>>
RECURSIVE EndFrom(_, _)
EndFrom(d, p) == IF HasUnit(d, p) THEN EndFrom(d, NextUnit(d, p)) ELSE p

\* the complete units of d in order, each with the position `at` of its contents;
\* exact = d is a configuration octet followed by complete units and nothing else
Units(d) == IF Len(d) = 0 THEN <<>> ELSE UnitsFrom(d, 2)
Exact(d) == Len(d) >= 1 /\ EndFrom(d, 2) = Len(d) + 1
\* how an inexact input ends (information for the notes, not used in any verdict)
Tail3(d) == LET p == EndFrom(d, 2) IN
            CASE Len(d) = 0 -> "empty"
              [] p = Len(d) + 1 -> "exact"
              [] p + 1 = Len(d) + 1 -> "halfId"
              [] p + 2 = Len(d) + 1 -> "idNoLen"
              [] p + 3 = Len(d) + 1 -> "lenNoCont"
              [] OTHER -> "contCut"

Strip(u) == [id |-> u.id, len |-> u.len, contents |-> u.contents]
StripAll(us) == [k \in 1..Len(us) |-> Strip(us[k])]
IsPrefix(a, b) == Len(a) <= Len(b) /\ \A k \in 1..Len(a) : a[k] = b[k]
=========================================================================
