------------------------------ MODULE NasCodec ------------------------------
(* Table-driven 5GS NAS message codec (TS 24.501 clause 8 formats V, LV, LV-E, T, TV, TLV, TLV-E),
   big-step operators over sequences of octets.  Written from the message tables (NasTables) and the
   framing rules of TS 24.007 11.2, independently of the generated Go code; the two deliberate
   behaviours of the library's generator that the properties allow are modelled as such and named:
     * SkipUnknown  - an unknown identifier octet is skipped (exactly one octet);
     * HalfAlias    - an identifier octet >= 0x80 is matched by its high nibble, so octets 0x08..0x0F
                      select the half-octet element with that identifier (kept verbatim).
   A message value is [mand |-> <<slot values>>, opt |-> <<slot values>>], a slot value is
   [p present, iei, len declared length, v content octets (padded to capacity for array storage)]. *)
EXTENDS Integers, Sequences, FiniteSets, NasTables

MsgByName(nm) == CHOOSE i \in 1..Len(Msgs) : Msgs[i].name = nm
Absent == [p |-> FALSE, iei |-> 0, len |-> 0, v |-> <<>>]

\* design-level sanity of the tables: a declared length can never exceed the storage capacity
TableCapOK == \A i \in 1..Len(Msgs) : \A S \in {Msgs[i].mand, Msgs[i].opt} : \A k \in 1..Len(S) :
                 (S[k].data = "arr" /\ S[k].lsz > 0) => S[k].max <= S[k].cap
\* identifiers of one message are pairwise distinct (otherwise decode o encode could not be the identity)
TableIeiOK == \A i \in 1..Len(Msgs) : \A j, k \in 1..Len(Msgs[i].opt) :
                 (j # k) => Msgs[i].opt[j].iei # Msgs[i].opt[k].iei
ASSUME TableCapOK /\ TableIeiOK

Avail(inp, pos) == Len(inp) - pos + 1
ReadLen(inp, pos, lsz) == IF lsz = 1 THEN inp[pos] ELSE inp[pos] * 256 + inp[pos + 1]
Sub(inp, pos, n) == SubSeq(inp, pos, pos + n - 1)
Pad(v, cap) == v \o [i \in 1..(cap - Len(v)) |-> 0]
LenOk(s, l) == IF s.lens # {} THEN l \in s.lens ELSE l >= s.min /\ l <= s.max
Store(s, v) == IF s.data = "arr" THEN Pad(v, s.cap) ELSE v
TagOf(b) == IF b >= 128 THEN b \div 16 ELSE b              \* HalfAlias

\* one element body at pos -> [ok, pos, val, alloc]; alloc = octets allocated for it (SetLen before the read)
Body(inp, pos, s, iei) ==
  IF s.lsz = 0 THEN
     IF Avail(inp, pos) < s.max THEN [ok |-> FALSE, pos |-> pos, val |-> Absent, alloc |-> 0]
     ELSE [ok |-> TRUE, pos |-> pos + s.max, alloc |-> 0,
           val |-> [p |-> TRUE, iei |-> iei, len |-> 0, v |-> Sub(inp, pos, s.max)]]
  ELSE IF Avail(inp, pos) < s.lsz THEN [ok |-> FALSE, pos |-> pos, val |-> Absent, alloc |-> 0]
  ELSE LET l == ReadLen(inp, pos, s.lsz)
           a == IF s.data = "buf" THEN l ELSE 0 IN
     IF ~LenOk(s, l) THEN [ok |-> FALSE, pos |-> pos, val |-> Absent, alloc |-> 0]
     ELSE IF Avail(inp, pos + s.lsz) < l THEN [ok |-> FALSE, pos |-> pos, val |-> Absent, alloc |-> a]
     ELSE [ok |-> TRUE, pos |-> pos + s.lsz + l, alloc |-> a,
           val |-> [p |-> TRUE, iei |-> iei, len |-> l, v |-> Store(s, Sub(inp, pos + s.lsz, l))]]

RECURSIVE Mand(_, _, _, _, _)
Mand(inp, pos, M, k, acc) ==
  IF k > Len(M.mand) THEN [ok |-> TRUE, pos |-> pos, vals |-> acc]
  ELSE LET r == Body(inp, pos, M.mand[k], 0) IN
       IF ~r.ok THEN [ok |-> FALSE, pos |-> pos, vals |-> acc]
       ELSE Mand(inp, r.pos, M, k + 1, Append(acc, r.val))

Match(M, t) == {k \in 1..Len(M.opt) : M.opt[k].iei = t}
First(ks) == CHOOSE k \in ks : \A j \in ks : k <= j
HalfVal(b) == [p |-> TRUE, iei |-> 0, len |-> 0, v |-> <<b>>]

RECURSIVE Opt(_, _, _, _)
Opt(inp, pos, M, acc) ==
  IF pos > Len(inp) THEN [ok |-> TRUE, vals |-> acc]
  ELSE LET b == inp[pos]  ks == Match(M, TagOf(b)) IN
       IF ks = {} THEN Opt(inp, pos + 1, M, acc)                            \* SkipUnknown
       ELSE LET k == First(ks)  s == M.opt[k] IN
            IF s.half THEN Opt(inp, pos + 1, M, [acc EXCEPT ![k] = HalfVal(b)])
            ELSE LET r == Body(inp, pos + 1, s, b) IN
                 IF ~r.ok THEN [ok |-> FALSE, vals |-> acc]
                 ELSE Opt(inp, r.pos, M, [acc EXCEPT ![k] = r.val])        \* last duplicate wins

NoOpt(M) == [k \in 1..Len(M.opt) |-> Absent]
Decode(M, inp) ==
  LET m == Mand(inp, 1, M, 1, <<>>) IN
  IF ~m.ok THEN [ok |-> FALSE]
  ELSE LET o == Opt(inp, m.pos, M, NoOpt(M)) IN
       IF ~o.ok THEN [ok |-> FALSE] ELSE [ok |-> TRUE, mand |-> m.vals, opt |-> o.vals]

\* ------------------------------------------------------------------ encoder
LenBytes(lsz, l) == IF lsz = 0 THEN <<>> ELSE IF lsz = 1 THEN <<l>> ELSE <<l \div 256, l % 256>>
Content(s, val) == IF s.lsz = 0 THEN val.v ELSE LenBytes(s.lsz, val.len) \o SubSeq(val.v, 1, val.len)
EncSlot(s, val) ==
  IF s.mand THEN Content(s, val)
  ELSE IF ~val.p THEN <<>>
  ELSE IF s.half THEN val.v
  ELSE <<val.iei>> \o Content(s, val)
RECURSIVE Cat(_, _, _)
Cat(S, V, k) == IF k > Len(S) THEN <<>> ELSE EncSlot(S[k], V[k]) \o Cat(S, V, k + 1)
Encode(M, d) == Cat(M.mand, d.mand, 1) \o Cat(M.opt, d.opt, 1)

\* well-formed message value (precondition of C02): declared length = content length, within bounds,
\* identifiers those of the definition
WfSlot(s, val) ==
  IF s.mand \/ val.p THEN
       /\ (s.lsz > 0 => LenOk(s, val.len) /\ (s.data = "buf" => Len(val.v) = val.len) /\ (s.data = "arr" => Len(val.v) = s.cap))
       /\ (s.lsz = 0 => Len(val.v) = (IF s.half THEN 1 ELSE s.max))
       /\ ((~s.mand /\ ~s.half) => val.iei = s.iei)
       /\ ((~s.mand /\ s.half) => val.v[1] \div 16 = s.iei)
  ELSE TRUE
WellFormed(M, d) == /\ Len(d.mand) = Len(M.mand) /\ Len(d.opt) = Len(M.opt)
                    /\ \A k \in 1..Len(M.mand) : WfSlot(M.mand[k], d.mand[k])
                    /\ \A k \in 1..Len(M.opt) : WfSlot(M.opt[k], d.opt[k])

\* canonical input: only known elements, each at most once, in table order, identifiers in their proper octet form
RECURSIVE OptOrder(_, _, _, _)
OptOrder(inp, pos, M, last) ==
  IF pos > Len(inp) THEN TRUE
  ELSE LET b == inp[pos]  ks == Match(M, TagOf(b)) IN
       IF ks = {} THEN FALSE
       ELSE LET k == First(ks)  s == M.opt[k] IN
            IF k <= last THEN FALSE
            ELSE IF s.half THEN (b >= 128) /\ OptOrder(inp, pos + 1, M, k)
            ELSE LET r == Body(inp, pos + 1, s, b) IN r.ok /\ OptOrder(inp, r.pos, M, k)
Canonical(M, inp) == LET m == Mand(inp, 1, M, 1, <<>>) IN m.ok /\ OptOrder(inp, m.pos, M, 0)

\* ------------------------------------------------------------------ dispatch (C05)
EpdGmm == 126   \* 0x7E
EpdGsm == 46    \* 0x2E
GmmByType(t) == {i \in 1..Len(Msgs) : Msgs[i].fam = "GMM" /\ Msgs[i].mt = t}
GsmByType(t) == {i \in 1..Len(Msgs) : Msgs[i].fam = "GSM" /\ Msgs[i].mt = t}
NoRoute == [ok |-> FALSE, msg |-> "none"]
Routed(c, inp) == LET i == CHOOSE i \in c : TRUE  d == Decode(Msgs[i], inp) IN
                  IF d.ok THEN [ok |-> TRUE, msg |-> Msgs[i].name, mand |-> d.mand, opt |-> d.opt]
                  ELSE [ok |-> FALSE, msg |-> Msgs[i].name]
DecodeGmm(inp) == IF Len(inp) < 3 THEN NoRoute
                  ELSE IF GmmByType(inp[3]) = {} THEN NoRoute ELSE Routed(GmmByType(inp[3]), inp)
DecodeGsm(inp) == IF Len(inp) < 4 THEN NoRoute
                  ELSE IF GsmByType(inp[4]) = {} THEN NoRoute ELSE Routed(GsmByType(inp[4]), inp)
DecodePlain(inp) == IF Len(inp) = 0 THEN NoRoute
                    ELSE IF inp[1] = EpdGmm THEN DecodeGmm(inp)
                    ELSE IF inp[1] = EpdGsm THEN DecodeGsm(inp) ELSE NoRoute
DecodeBody(name, inp) == Routed({MsgByName(name)}, inp)       \* Decode<Msg> called directly
DecodeEntry(entry, bm, inp) == CASE entry = "plain" -> DecodePlain(inp)
                                 [] entry = "gmm" -> DecodeGmm(inp)
                                 [] entry = "gsm" -> DecodeGsm(inp)
                                 [] entry = "body" -> DecodeBody(bm, inp)
\* at most one message per (family, type): routing is a function
RouteUnique == \A t \in 0..255 : Cardinality(GmmByType(t)) <= 1 /\ Cardinality(GsmByType(t)) <= 1
ASSUME RouteUnique
=============================================================================
