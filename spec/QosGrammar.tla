--------------------------- MODULE QosGrammar ---------------------------
(* C15 - QoS rules (TS 24.501 9.11.4.13) and QoS flow descriptions (9.11.4.12), declaratively.

   QoS rule:      rule identifier | length of rule (2 octets, big endian) |
                  operation(3) DQR(1) number-of-packet-filters(4) | packet filter list |
                  precedence | 0 segregation(1) QFI(6)
   packet filter: 0 0 direction(2) identifier(4) | length of contents | contents = components
                  for operation 5 (delete packet filters) the list holds only  0000 identifier(4)  octets
   component:     type octet, then a value of a size fixed by the type (Layout: the big-endian fields)
   description:   0 0 QFI(6) | operation(3) 00000 | 0 E(1) number-of-parameters(6) | parameters
   parameter:     identifier | length | value  (PLayout; the length octet must be the size of the kind)

   Values are records:
     rule   [id, op, dqr, filters, prec, seg, qfi]      filter [id, dir, comps]     component [t, f]
     desc   [qfi, op, params]                           parameter [id, f]
   where f is the sequence of the fields of the value, each an integer (a 32-bit field is split
   into two 16-bit fields because TLC integers are 32-bit signed).
   Marshal* is defined on well-formed values; Parse* is total on octet strings and returns
   [err |-> "" or the first error met, val |-> the list].  Spare bits are ignored on reading and
   written as zero, so Parse(Marshal(x)) = x exactly and Marshal(Parse(d)) = d iff d is canonical.
   No variables: this module is the oracle of the trace specification; Qos.tla has the parser as
   a small-step machine and TLC checks that both agree. *)
EXTENDS Integers, Sequences

\* ---- component types (Table 9.11.4.13.1; the 18 types of the property; IPv6 types 0x21, 0x23 are
\*      not among them: a reader that does not support them treats them as unknown)
CompTypes == {1, 16, 17, 48, 64, 65, 80, 81, 96, 112, 128, 129, 130, 131, 132, 133, 134, 135}
Layout(t) == CASE t = 1 -> <<>>                                  \* match-all
               [] t \in {16, 17} -> <<1, 1, 1, 1, 1, 1, 1, 1>>   \* IPv4 remote/local: address, mask
               [] t = 48 -> <<1>>                                \* protocol identifier / next header
               [] t \in {64, 80} -> <<2>>                        \* single local / remote port
               [] t \in {65, 81} -> <<2, 2>>                     \* local / remote port range: low, high
               [] t = 96 -> <<2, 2>>                             \* security parameter index (32 bits: high, low half)
               [] t = 112 -> <<1, 1>>                            \* type of service / traffic class, mask
               [] t = 128 -> <<3>>                               \* flow label: 0000 + 20 bits
               [] t \in {129, 130} -> <<1, 1, 1, 1, 1, 1>>       \* destination / source MAC address
               [] t \in {131, 132} -> <<2>>                      \* 802.1Q C-TAG / S-TAG VID
               [] t \in {133, 134} -> <<1>>                      \* 802.1Q C-TAG / S-TAG PCP/DEI
               [] t = 135 -> <<2>>                               \* ethertype
ParamIds == 1..7
PLayout(i) == CASE i = 1 -> <<1>>                                \* 5QI
                [] i \in 2..5 -> <<1, 2>>                        \* GFBR/MFBR uplink/downlink: unit, value
                [] i = 6 -> <<2>>                                \* averaging window
                [] i = 7 -> <<1>>                                \* EPS bearer identity

RECURSIVE Sum(_)
Sum(s) == IF s = <<>> THEN 0 ELSE Head(s) + Sum(Tail(s))
Pow256(w) == CASE w = 0 -> 1 [] w = 1 -> 256 [] w = 2 -> 65536 [] w = 3 -> 16777216
\* the largest value of a field of a WELL-FORMED component: the flow label is 20 bits in a 3-octet field,
\* a VID 12 bits and PCP/DEI 4 bits (the upper bits of those fields are spare)
FieldMax(t, k) == CASE t = 128 -> 1048575 [] t \in {131, 132} -> 4095 [] t \in {133, 134} -> 15
                    [] OTHER -> Pow256(Layout(t)[k]) - 1
B(b) == IF b THEN 1 ELSE 0

\* big-endian octets of v in w octets, and back
BE(v, w) == [k \in 1..w |-> (v \div Pow256(w - k)) % 256]
RECURSIVE UnBE(_, _, _)
UnBE(d, p, w) == IF w = 0 THEN 0 ELSE d[p] * Pow256(w - 1) + UnBE(d, p + 1, w - 1)
RECURSIVE EncFields(_, _)
EncFields(f, lay) == IF lay = <<>> THEN <<>> ELSE BE(Head(f), Head(lay)) \o EncFields(Tail(f), Tail(lay))
RECURSIVE DecFields(_, _, _)
DecFields(d, p, lay) == IF lay = <<>> THEN <<>> ELSE <<UnBE(d, p, Head(lay))>> \o DecFields(d, p + Head(lay), Tail(lay))

\* ------------------------------------------------------------------ well-formedness
WFComp(c) == /\ c.t \in CompTypes /\ Len(c.f) = Len(Layout(c.t))
             /\ \A k \in 1..Len(c.f) : c.f[k] \in 0..FieldMax(c.t, k)
CompsSize(cs) == Sum([k \in 1..Len(cs) |-> 1 + Sum(Layout(cs[k].t))])
WFFilter(op, pf) == /\ pf.id \in 0..15
                    /\ IF op = 5 THEN pf.dir = 0 /\ pf.comps = <<>>
                       ELSE pf.dir \in 0..3 /\ (\A k \in 1..Len(pf.comps) : WFComp(pf.comps[k])) /\ CompsSize(pf.comps) <= 255
WFRule(r) == /\ r.id \in 0..255 /\ r.op \in 1..6 /\ r.dqr \in BOOLEAN /\ r.seg \in BOOLEAN
             /\ r.prec \in 0..255 /\ r.qfi \in 0..63 /\ Len(r.filters) <= 15
             /\ \A k \in 1..Len(r.filters) : WFFilter(r.op, r.filters[k])
WFRules(rs) == \A k \in 1..Len(rs) : WFRule(rs[k])
WFParam(p) == /\ p.id \in ParamIds /\ Len(p.f) = Len(PLayout(p.id))
              /\ \A k \in 1..Len(p.f) : p.f[k] \in 0..(Pow256(PLayout(p.id)[k]) - 1)
WFDesc(q) == /\ q.qfi \in 0..63 /\ q.op \in 1..3 /\ Len(q.params) <= 63
             /\ \A k \in 1..Len(q.params) : WFParam(q.params[k])
WFDescs(qs) == \A k \in 1..Len(qs) : WFDesc(qs[k])

\* ------------------------------------------------------------------ Marshal
MarshalComp(c) == <<c.t>> \o EncFields(c.f, Layout(c.t))
RECURSIVE MarshalComps(_)
MarshalComps(cs) == IF cs = <<>> THEN <<>> ELSE MarshalComp(Head(cs)) \o MarshalComps(Tail(cs))
MarshalFilter(op, pf) == IF op = 5 THEN <<pf.id>>
                         ELSE LET b == MarshalComps(pf.comps) IN <<pf.dir * 16 + pf.id, Len(b)>> \o b
RECURSIVE MarshalFilters(_, _)
MarshalFilters(op, pfs) == IF pfs = <<>> THEN <<>> ELSE MarshalFilter(op, Head(pfs)) \o MarshalFilters(op, Tail(pfs))
MarshalRule(r) == LET c == <<r.op * 32 + B(r.dqr) * 16 + Len(r.filters)>> \o MarshalFilters(r.op, r.filters)
                           \o <<r.prec, B(r.seg) * 64 + r.qfi>>
                  IN <<r.id, Len(c) \div 256, Len(c) % 256>> \o c
RECURSIVE MarshalRules(_)
MarshalRules(rs) == IF rs = <<>> THEN <<>> ELSE MarshalRule(Head(rs)) \o MarshalRules(Tail(rs))

MarshalParam(p) == LET b == EncFields(p.f, PLayout(p.id)) IN <<p.id, Len(b)>> \o b
RECURSIVE MarshalParams(_)
MarshalParams(ps) == IF ps = <<>> THEN <<>> ELSE MarshalParam(Head(ps)) \o MarshalParams(Tail(ps))
MarshalDesc(q) == <<q.qfi, q.op * 32, (IF Len(q.params) > 0 THEN 64 ELSE 0) + Len(q.params)>> \o MarshalParams(q.params)
RECURSIVE MarshalDescs(_)
MarshalDescs(qs) == IF qs = <<>> THEN <<>> ELSE MarshalDesc(Head(qs)) \o MarshalDescs(Tail(qs))

\* ------------------------------------------------------------------ Parse (total)
\* errors: "truncated" (the data or the enclosing element ends too early), "unknown" (identifier),
\*         "length" (a length field contradicts the content)
\* components occupying exactly d[p..end]
RECURSIVE PComps(_, _, _, _)
PComps(d, p, end, acc) ==
  IF p > end THEN [err |-> "", val |-> acc]
  ELSE IF d[p] \notin CompTypes THEN [err |-> "unknown", val |-> acc]
  ELSE LET s == Sum(Layout(d[p])) IN
       IF p + s > end THEN [err |-> "truncated", val |-> acc]
       ELSE PComps(d, p + 1 + s, end, Append(acc, [t |-> d[p], f |-> DecFields(d, p + 1, Layout(d[p]))]))

\* n packet filters starting at p, inside d[..end]; pos = the octet after the last one
RECURSIVE PFilters(_, _, _, _, _, _)
PFilters(d, p, end, op, n, acc) ==
  IF n = 0 THEN [err |-> "", val |-> acc, pos |-> p]
  ELSE IF op = 5 THEN
       IF p > end THEN [err |-> "truncated", val |-> acc, pos |-> p]
       ELSE PFilters(d, p + 1, end, op, n - 1, Append(acc, [id |-> d[p] % 16, dir |-> 0, comps |-> <<>>]))
  ELSE IF p + 1 > end THEN [err |-> "truncated", val |-> acc, pos |-> p]
  ELSE LET fe == p + 1 + d[p + 1] IN
       IF fe > end THEN [err |-> "truncated", val |-> acc, pos |-> p]
       ELSE LET c == PComps(d, p + 2, fe, <<>>) IN
            IF c.err # "" THEN [err |-> c.err, val |-> acc, pos |-> p]
            ELSE PFilters(d, fe + 1, end, op, n - 1,
                          Append(acc, [id |-> d[p] % 16, dir |-> (d[p] \div 16) % 4, comps |-> c.val]))

RECURSIVE PRules(_, _, _)
PRules(d, p, acc) ==
  IF p > Len(d) THEN [err |-> "", val |-> acc]
  ELSE IF p + 2 > Len(d) THEN [err |-> "truncated", val |-> acc]
  ELSE LET L == d[p + 1] * 256 + d[p + 2]
           end == p + 2 + L IN
       IF end > Len(d) THEN [err |-> "truncated", val |-> acc]
       ELSE IF L < 3 THEN [err |-> "length", val |-> acc]
       ELSE LET h == d[p + 3]
                op == h \div 32
                r == PFilters(d, p + 4, end - 2, op, h % 16, <<>>) IN
            IF r.err # "" THEN [err |-> r.err, val |-> acc]
            ELSE IF r.pos # end - 1 THEN [err |-> "length", val |-> acc]
            ELSE PRules(d, end + 1, Append(acc, [id |-> d[p], op |-> op, dqr |-> (h \div 16) % 2 = 1, filters |-> r.val,
                                                 prec |-> d[end - 1], seg |-> (d[end] \div 64) % 2 = 1, qfi |-> d[end] % 64]))
ParseRules(d) == PRules(d, 1, <<>>)

RECURSIVE PParams(_, _, _, _)
PParams(d, p, n, acc) ==
  IF n = 0 THEN [err |-> "", val |-> acc, pos |-> p]
  ELSE IF p + 1 > Len(d) THEN [err |-> "truncated", val |-> acc, pos |-> p]
  ELSE IF d[p] \notin ParamIds THEN [err |-> "unknown", val |-> acc, pos |-> p]
  ELSE IF d[p + 1] # Sum(PLayout(d[p])) THEN [err |-> "length", val |-> acc, pos |-> p]
  ELSE IF p + 1 + d[p + 1] > Len(d) THEN [err |-> "truncated", val |-> acc, pos |-> p]
  ELSE PParams(d, p + 2 + d[p + 1], n - 1, Append(acc, [id |-> d[p], f |-> DecFields(d, p + 2, PLayout(d[p]))]))

RECURSIVE PDescs(_, _, _)
PDescs(d, p, acc) ==
  IF p > Len(d) THEN [err |-> "", val |-> acc]
  ELSE IF p + 2 > Len(d) THEN [err |-> "truncated", val |-> acc]
  ELSE LET r == PParams(d, p + 3, d[p + 2] % 64, <<>>) IN
       IF r.err # "" THEN [err |-> r.err, val |-> acc]
       ELSE PDescs(d, r.pos, Append(acc, [qfi |-> d[p] % 64, op |-> d[p + 1] \div 32, params |-> r.val]))
ParseDescs(d) == PDescs(d, 1, <<>>)

\* ------------------------------------------------------------------ positions (for generated malformed inputs)
\* positions of the component type octets in MarshalRules(rs), base = position of the first octet
RECURSIVE CompPos(_, _)
CompPos(cs, p) == IF cs = <<>> THEN {} ELSE {p} \cup CompPos(Tail(cs), p + 1 + Sum(Layout(Head(cs).t)))
RECURSIVE FilterCompPos(_, _, _)
FilterCompPos(op, pfs, p) == IF pfs = <<>> \/ op = 5 THEN {}
                             ELSE CompPos(Head(pfs).comps, p + 2) \cup FilterCompPos(op, Tail(pfs), p + Len(MarshalFilter(op, Head(pfs))))
RECURSIVE RuleCompPos(_, _)
RuleCompPos(rs, p) == IF rs = <<>> THEN {} ELSE FilterCompPos(Head(rs).op, Head(rs).filters, p + 4) \cup RuleCompPos(Tail(rs), p + Len(MarshalRule(Head(rs))))
RECURSIVE RuleHdrPos(_, _)      \* positions of the op|DQR|count octets
RuleHdrPos(rs, p) == IF rs = <<>> THEN {} ELSE {p + 3} \cup RuleHdrPos(Tail(rs), p + Len(MarshalRule(Head(rs))))
RECURSIVE ParamPos(_, _)
ParamPos(ps, p) == IF ps = <<>> THEN {} ELSE {p} \cup ParamPos(Tail(ps), p + Len(MarshalParam(Head(ps))))
RECURSIVE DescParamPos(_, _)
DescParamPos(qs, p) == IF qs = <<>> THEN {} ELSE ParamPos(Head(qs).params, p + 3) \cup DescParamPos(Tail(qs), p + Len(MarshalDesc(Head(qs))))
RECURSIVE DescCntPos(_, _)      \* positions of the E|count octets
DescCntPos(qs, p) == IF qs = <<>> THEN {} ELSE {p + 2} \cup DescCntPos(Tail(qs), p + Len(MarshalDesc(Head(qs))))

IsPrefix(a, b) == Len(a) <= Len(b) /\ \A k \in 1..Len(a) : a[k] = b[k]
Replace(d, p, x) == [d EXCEPT ![p] = x]
=========================================================================
