------------------------------ MODULE X03Cases ------------------------------
(* X03 - the case structure of the element contents: for every reader kind of ReceivedMessage a SEQUENCE of cases
      [c |-> contents octets, wf |-> BOOLEAN, x |-> expectations <<[a |-> aspect, v |-> value], ..>>]
   wf = TRUE: the contents are produced from a well-formed FIELD VALUE by the specification's own ENCODER
   (SuciToWire, GutiToWire, NssaiEnc, OctetsOfBitmap, Marshal, MarshalRules, StampEncode, Pack7, ...) and x says what the
   receiver must read, written from the VALUE with the value -> text operators (never through a decoder): the
   end-to-end round-trip law is  Received(Encode(message(values)))  reads exactly x.
   wf = FALSE: malformed contents derived from the case structure of the converters (wrong lengths inside the
   element, truncated identities, unknown identity types, counts that contradict the contents, ...): no expectation,
   they exercise totality and locality, and they are inputs for the real code.
   The first case of every kind is a well-formed default.  For a half-octet element c is the value half octet
   (0..15); the generator puts the identifier in front. *)
EXTENDS ReceivedMessage

XcWf(c, x) == [c |-> c, wf |-> TRUE, x |-> x]
XcMal(c)   == [c |-> c, wf |-> FALSE, x |-> <<>>]
XcE(a, v)  == [a |-> a, v |-> v]
XcCut(c, k) == SubSeq(c, 1, Len(c) - k)
XcSet(c, p, x) == [c EXCEPT ![p] = x]
XcRep(n, x) == [i \in 1..n |-> x]
XcBits8(o) == [j \in 1..8 |-> (o \div 2 ^ (8 - j)) % 2]                 \* bit 8 first

\* ------------------------------------------------------------------ values
XP1 == [mcc |-> <<2, 0, 8>>, mnc |-> <<9, 3>>]
XP2 == [mcc |-> <<3, 1, 0>>, mnc |-> <<4, 1, 0>>]
XSuci1 == [fmt |-> 0, plmn |-> XP1, ri |-> <<0>>, scheme |-> 0, pki |-> 0, out |-> <<0, 0, 0, 0, 0, 0, 0, 0, 0, 1>>]
XSuci2 == [fmt |-> 0, plmn |-> XP2, ri |-> <<1, 2, 3, 4>>, scheme |-> 0, pki |-> 255, out |-> <<1, 2, 3, 4, 5, 6, 7, 8, 9>>]
XSuci3 == [fmt |-> 0, plmn |-> XP1, ri |-> <<9, 9>>, scheme |-> 1, pki |-> 1, out |-> <<171, 205, 1, 255, 0, 16>>]
XSuci4 == AL!Nai(<<117, 64, 120, 46, 111, 114, 103>>)
XSuci5 == [XSuci1 EXCEPT !.out = <<9, 8, 7, 6, 5, 4, 3, 2, 1, 0>>]              \* the twin of XSuci1: same PLMN, same length, another MSIN
XSuci6 == [XSuci3 EXCEPT !.scheme = 12, !.pki = 200]
XGuti1 == [plmn |-> XP1, amf |-> <<202, 1019, 63>>, tmsi |-> <<0, 0, 0, 1>>]
XGuti2 == [plmn |-> XP2, amf |-> <<0, 0, 0>>, tmsi |-> <<255, 254, 253, 252>>]
XGuti3 == [plmn |-> XP2, amf |-> <<1, 1, 1>>, tmsi |-> <<18, 52, 86, 120>>]
XImei   == [kind |-> "imei", digits |-> <<3, 5, 6, 9, 3, 8, 0, 3, 5, 6, 4, 3, 8, 0, 9>>]
XImei2  == [kind |-> "imei", digits |-> <<4, 9, 0, 1, 5, 4, 2, 0, 3, 2, 3, 7, 5, 1, 8>>]
XImeisv == [kind |-> "imeisv", digits |-> <<3, 5, 6, 9, 3, 8, 0, 3, 5, 6, 4, 3, 8, 0, 1, 2>>]
XTmsi1 == [set |-> 1023, pointer |-> 63, tmsi |-> <<222, 173, 190, 239>>]
XTmsi2 == [set |-> 1, pointer |-> 0, tmsi |-> <<0, 0, 0, 0>>]

\* ------------------------------------------------------------------ 5GS mobile identity
XcIdX(kind, es) == IF kind = "idplain" THEN SelectSeq(es, LAMBDA e : e.a = "conv") ELSE es
XcSuci(kind, s) == XcWf(AL!SuciToWire(s),
                        XcIdX(kind, <<XcE("type", AL!IdentityTypeName(1)), XcE("id", <<AL!SuciToText(s), AL!IdentityTypeName(1)>>),
                                      XcE("conv", <<AL!SuciToText(s), IF s.fmt = 0 THEN AL!PlmnToText(s.plmn) ELSE <<>> >>)>>
                                    \o (IF s.fmt = 0 THEN <<XcE("plmn", AL!PlmnToText(s.plmn))>> ELSE <<>>)))
XGutiTexts(g) == <<AL!GutiToText(g), AL!MccText(g.plmn), AL!MncText(g.plmn), AL!AmfToText(g.amf)>>
XcGutiId(kind, g) == XcWf(AL!GutiToWire(g),
                          XcIdX(kind, <<XcE("type", AL!IdentityTypeName(2)), XcE("id", <<AL!GutiToText(g), AL!IdentityTypeName(2)>>),
                                        XcE("plmn", AL!PlmnToText(g.plmn)), XcE("conv", XGutiTexts(g))>>))
XcPei(kind, p) == LET k == IF p.kind = "imei" THEN 3 ELSE 5 IN
                  XcWf(AL!PeiToWire(p), XcIdX(kind, <<XcE("type", AL!IdentityTypeName(k)), XcE("id", <<AL!PeiToText(p), AL!IdentityTypeName(k)>>),
                                                       XcE("conv", <<AL!PeiToText(p)>>)>>))
XcTmsiId(kind, s) == XcWf(AL!STmsiToWire(s), XcIdX(kind, <<XcE("type", AL!IdentityTypeName(4)),
                                                            XcE("stmsi", <<AL!STmsiToText(s), AL!IdentityTypeName(4)>>)>>))
XcIdentity(kind) ==
  << XcSuci(kind, XSuci1), XcSuci(kind, XSuci2), XcSuci(kind, XSuci3), XcSuci(kind, XSuci4), XcSuci(kind, XSuci5), XcSuci(kind, XSuci6),
     XcGutiId(kind, XGuti1), XcGutiId(kind, XGuti2), XcGutiId(kind, XGuti3),
     XcPei(kind, XImei), XcPei(kind, XImei2), XcPei(kind, XImeisv), XcTmsiId(kind, XTmsi1), XcTmsiId(kind, XTmsi2),
     XcMal(<<0, 0, 0, 0>>),                                      \* no identity
     XcMal(<<6, 1, 2, 3>>), XcMal(<<7, 33, 67, 101, 135>>),      \* unused types of identity
     XcMal(SubSeq(AL!SuciToWire(XSuci1), 1, 6)),                 \* SUCI cut inside the routing indicator
     XcMal(SubSeq(AL!SuciToWire(XSuci1), 1, 8)),                 \* SUCI without scheme output
     XcMal(XcSet(AL!SuciToWire(XSuci1), 13, 186)),               \* MSIN with a non-decimal digit
     XcMal(XcSet(AL!SuciToWire(XSuci2), 2, 175)),                \* PLMN with a non-decimal digit
     XcMal(XcSet(AL!SuciToWire(XSuci3), 7, 16)),                 \* protection scheme identifier out of range
     XcMal(XcSet(AL!SuciToWire(XSuci1), 1, 33)),                 \* SUPI format 2
     XcMal(<<17>>), XcMal(<<17, 0, 0, 0>>),                      \* NAI format: without / with octets
     XcMal(XcCut(AL!GutiToWire(XGuti1), 1)), XcMal(AL!GutiToWire(XGuti1) \o <<9>>),          \* 5G-GUTI of 10 / 12 octets
     XcMal(XcSet(AL!GutiToWire(XGuti1), 1, 2)),                  \* 5G-GUTI whose first octet has the spare bits 0000
     XcMal(XcSet(AL!GutiToWire(XGuti2), 3, 250)),                \* 5G-GUTI with a non-decimal PLMN digit
     XcMal(XcCut(AL!PeiToWire(XImei), 1)), XcMal(XcSet(AL!PeiToWire(XImei), 4, 197)),        \* IMEI of 13 digits / with a digit C
     XcMal(XcSet(AL!PeiToWire(XImeisv), 1, 61)),                 \* IMEISV announcing an odd number of digits
     XcMal(XcCut(AL!STmsiToWire(XTmsi1), 1)), XcMal(AL!STmsiToWire(XTmsi1) \o <<0>>),       \* 5G-S-TMSI of 6 / 8 octets
     XcMal(<<1>>), XcMal(<<2, 2>>), XcMal(<<4, 255, 255>>), XcMal(<<3>>) >>

XcGuti == << XcWf(AL!GutiToWire(XGuti1), <<XcE("text", XGutiTexts(XGuti1)), XcE("ids", XGuti1.amf \o XGuti1.tmsi)>>),
             XcWf(AL!GutiToWire(XGuti2), <<XcE("text", XGutiTexts(XGuti2)), XcE("ids", XGuti2.amf \o XGuti2.tmsi)>>),
             XcWf(AL!GutiToWire(XGuti3), <<XcE("text", XGutiTexts(XGuti3)), XcE("ids", XGuti3.amf \o XGuti3.tmsi)>>),
             XcWf(XcSet(AL!GutiToWire(XGuti1), 1, 2), <<XcE("ids", XGuti1.amf \o XGuti1.tmsi)>>),       \* not a 5G-GUTI octet 1: the numbers still read
             XcMal(XcSet(AL!GutiToWire(XGuti2), 2, 175)), XcMal(XcSet(AL!GutiToWire(XGuti2), 3, 240)),
             XcMal(XcCut(AL!GutiToWire(XGuti1), 1)), XcMal(AL!GutiToWire(XGuti1) \o <<1>>) >>
XTmsiIds(s) == <<s.set, s.pointer>> \o s.tmsi
XTmsiTexts(s) == <<AL!STmsiToText(s), AL!IdentityTypeName(4)>>
XcStmsi == << XcWf(AL!STmsiToWire(XTmsi1), <<XcE("text", XTmsiTexts(XTmsi1)), XcE("ids", XTmsiIds(XTmsi1))>>),
              XcWf(AL!STmsiToWire(XTmsi2), <<XcE("text", XTmsiTexts(XTmsi2)), XcE("ids", XTmsiIds(XTmsi2))>>),
              XcWf(XcSet(AL!STmsiToWire(XTmsi1), 1, 242), <<XcE("ids", XTmsiIds(XTmsi1))>>),       \* type of identity 010
              XcMal(XcSet(AL!STmsiToWire(XTmsi2), 1, 0)),
              XcMal(XcCut(AL!STmsiToWire(XTmsi1), 1)), XcMal(AL!STmsiToWire(XTmsi1) \o <<1>>) >>

\* ------------------------------------------------------------------ NSSAI, S-NSSAI
XSn1 == AL!Plain(1, <<>>)
XSn2 == AL!Plain(1, <<1, 2, 3>>)
XSn3 == [sst |-> 2, sd |-> <<>>, hsst |-> <<3>>, hsd |-> <<>>]
XSn4 == [sst |-> 255, sd |-> <<255, 255, 255>>, hsst |-> <<1>>, hsd |-> <<>>]
XSn5 == [sst |-> 4, sd |-> <<0, 0, 1>>, hsst |-> <<5>>, hsd |-> <<171, 205, 239>>]
XcNssaiOf(vs) == XcWf(AL!NssaiEnc(vs), <<XcE("list", [i \in 1..Len(vs) |-> RxMapOf(vs[i])])>>)
XcNssai == << XcNssaiOf(<<XSn1, XSn2>>), XcNssaiOf(<<AL!Plain(3, <<>>), AL!Plain(2, <<10, 11, 12>>)>>), XcNssaiOf(<<XSn1>>), XcNssaiOf(<<XSn2>>), XcNssaiOf(<<XSn3>>), XcNssaiOf(<<XSn4>>),
              XcNssaiOf(<<XSn5>>), XcNssaiOf(<<XSn2, XSn3, XSn4, XSn5>>), XcNssaiOf(XcRep(8, XSn5)), XcNssaiOf(XcRep(8, XSn2)),
              XcMal(<<3, 1, 2, 3>>), XcMal(<<0, 0>>), XcMal(<<9, 1, 2, 3, 4, 5, 6, 7, 8, 9>>), XcMal(<<6, 1, 2, 3, 4, 5, 6>>),
              XcMal(XcCut(AL!NssaiEnc(<<XSn1, XSn2>>), 1)),                  \* last entry one octet short
              XcMal(AL!NssaiEnc(<<XSn1>>) \o <<7>>),                         \* a length octet and nothing behind it
              XcMal(AL!NssaiEnc(<<XSn2>>) \o <<0>>),
              XcMal(AL!NssaiEnc(XcRep(8, XSn5)) \o <<1>>),                   \* 73 octets: over the element's maximum
              XcMal(<<1>>) >>
XcSnssaiOf(x) == XcWf(AL!SnssaiContents(x), <<XcE("model", [sst |-> x.sst, sd |-> AL!SdText(x.sd)])>>)
XcSnssai == << XcSnssaiOf(XSn2), XcSnssaiOf(XSn1), XcSnssaiOf(AL!Plain(255, <<255, 0, 171>>)),
               XcMal(AL!SnssaiContents(XSn3)), XcMal(AL!SnssaiContents(XSn4)), XcMal(AL!SnssaiContents(XSn5)),     \* mapped forms
               XcMal(<<1, 2, 3>>), XcMal(<<1, 2, 3, 4, 5, 6>>), XcMal(<<1, 2, 3, 4, 5, 6, 7>>),                     \* lengths 3, 6, 7
               XcMal(<<>>), XcMal(<<1, 2, 3, 4, 5, 6, 7, 8, 9>>) >>
XRej1 == [sst |-> 1, sd |-> <<>>, cause |-> AL!CausePlmn]
XRej2 == [sst |-> 2, sd |-> <<1, 2, 3>>, cause |-> AL!CauseRegArea]
XcRejOf(rs) == XcWf(AL!RejEnc(rs), <<XcE("raw", AL!RejEnc(rs)),
                                     XcE("list", [i \in 1..Len(rs) |-> [sst |-> rs[i].sst, sd |-> AL!SdText(rs[i].sd), cause |-> rs[i].cause]])>>)
XcRejNssai == << XcRejOf(<<XRej1, XRej2>>), XcRejOf(<<[XRej1 EXCEPT !.sst = 9, !.cause = 1], [XRej2 EXCEPT !.sd = <<9, 9, 9>>]>>), XcRejOf(<<XRej1>>), XcRejOf(<<XRej2>>), XcRejOf(XcRep(8, XRej2)),
                 XcMal(<<32, 1, 2>>), XcMal(XcCut(AL!RejEnc(<<XRej2>>), 1)), XcMal(<<0, 0>>), XcMal(<<17>>) >>

\* ------------------------------------------------------------------ bitmaps
XcPsiOf(S, spare) ==
  LET bm == [i \in 0..15 |-> i \in S]
      r  == [k \in 1..16 |-> IF (k - 1) \in S THEN 1 ELSE 0]
  IN XcWf(PS!OctetsOfBitmap(bm) \o XcRep(spare, 0), <<XcE("bools", r), XcE("bits", r)>>)
XcPsi == << XcPsiOf({1, 5}, 0), XcPsiOf({}, 0), XcPsiOf(0..15, 0), XcPsiOf({0}, 0), XcPsiOf({7, 8}, 0), XcPsiOf({15}, 0),
            XcPsiOf({0, 2, 5, 7, 9, 11, 12, 14}, 0), XcPsiOf({1, 5}, 2), XcPsiOf({8, 15}, 30),
            XcMal(<<255, 255, 255, 255>>), XcMal(<<1>>), XcMal(XcRep(33, 1)) >>
XcSecOf(c) == XcWf(c, <<XcE("algs", [r \in 1..RxMin(Len(c), 4) |-> XcBits8(c[r])])>>)
XcSecCap == << XcSecOf(<<240, 112>>), XcSecOf(<<128, 192>>), XcSecOf(<<224, 224, 240, 240>>), XcSecOf(<<128, 64, 32>>), XcSecOf(<<1, 2, 4, 8>>),
               XcSecOf(<<255, 255, 255, 255, 0, 0, 0, 0>>), XcSecOf(<<0, 0, 0, 0, 255>>),
               XcMal(<<240>>), XcMal(XcRep(9, 240)) >>

\* ------------------------------------------------------------------ LADN, TAI, TAI lists, service area lists
XDnn1 == <<105, 110, 116, 101, 114, 110, 101, 116>>
XDnn1b == <<105, 110, 116, 114, 97, 110, 101, 116>>              \* "intranet": the twin of "internet"
XDnn2 == <<1>>
XDnn3 == XcRep(100, 7)
XcLadnIndOf(ds) == XcWf(AL!LadnIndEnc(ds), <<XcE("dnns", ds)>>)
XcLadnInd == << XcLadnIndOf(<<XDnn1>>), XcLadnIndOf(<<XDnn1b>>), XcLadnIndOf(<<>>), XcLadnIndOf(<<XDnn1, XDnn2>>), XcLadnIndOf(<<XDnn3>>), XcLadnIndOf(XcRep(8, XDnn3)),
                XcMal(<<0>>), XcMal(<<5, 1, 2>>), XcMal(<<101>> \o XcRep(101, 7)), XcMal(AL!LadnIndEnc(<<XDnn1>>) \o <<0>>),
                XcMal(AL!LadnIndEnc(<<XDnn2>>) \o <<9>>), XcMal(AL!LadnIndEnc(XcRep(8, XDnn3)) \o <<1>>) >>
XTac1 == <<0, 0, 1>>
XTac2 == <<255, 255, 254>>
XcTaiOf(p, tac) == XcWf(AL!PlmnToWire(p) \o tac, <<XcE("plmn", AL!PlmnToText(p)), XcE("tac", tac)>>)
XcTai == << XcTaiOf(XP1, XTac1), XcTaiOf(XP2, XTac2), XcTaiOf(XP2, XTac1),
            XcWf(<<175, 0, 0>> \o XTac2, <<XcE("tac", XTac2)>>), XcMal(<<255, 255, 255, 255, 255, 255>>), XcMal(<<0, 240, 0, 0, 0>>) >>
XT(p, n) == AL!Tai(p, AL!TacOf(n))
XTs00 == <<XT(XP1, 1), XT(XP1, 5), XT(XP1, 65536)>>
XTs01 == [i \in 1..4 |-> XT(XP2, 255 + i)]                       \* consecutive, crossing an octet boundary
XTs10 == <<XT(XP1, 7), XT(XP2, 7)>>
XTs16 == [i \in 1..16 |-> XT(XP1, 16777200 + i)]
XcTaiListOf(c, ts) == XcWf(c, <<XcE("raw", c), XcE("list", RxTais(ts))>>)
XTs00b == <<XT(XP2, 2), XT(XP2, 6), XT(XP2, 65537)>>
XcTaiList == << XcTaiListOf(AL!Partial00(XTs00), XTs00), XcTaiListOf(AL!Partial00(XTs00b), XTs00b), XcTaiListOf(AL!Partial01(XTs01), XTs01), XcTaiListOf(AL!Partial10(XTs10), XTs10),
                XcTaiListOf(AL!Partial00(<<XT(XP2, 9)>>), <<XT(XP2, 9)>>),
                XcTaiListOf(AL!Partial00(XTs00) \o AL!Partial10(XTs10), XTs00 \o XTs10),
                XcTaiListOf(AL!Partial01(XTs16), XTs16), XcTaiListOf(AL!Partial00(XTs16), XTs16),
                XcMal(<<96>> \o AL!PlmnToWire(XP1) \o <<0, 0, 0>>),          \* list type 11 in a TAI list
                XcMal(XcSet(AL!Partial00(XTs00), 1, 3)),                      \* four elements announced, three there
                XcMal(AL!Partial01(XTs16) \o AL!Partial00(<<XT(XP2, 9)>>)),  \* 17 TAIs
                XcMal(XcSet(AL!Partial00(XTs00), 2, 250)),                    \* PLMN with a non-decimal digit
                XcMal(XcSet(AL!Partial00(XTs00), 1, 128)), XcMal(XcCut(AL!Partial10(XTs10), 1)), XcMal(<<0, 0, 0, 0, 0, 0>>) >>
XcSalOf(c, na, ts, wh) == XcWf(c, <<XcE("raw", c), XcE("list", [na |-> na, tais |-> RxTais(ts), whole |-> [i \in 1..Len(wh) |-> AL!PlmnToText(wh[i])]])>>)
XcSal == << XcSalOf(AL!SalPartial00(0, XTs00), 0, XTs00, <<>>), XcSalOf(AL!SalPartial00(1, XTs00b), 1, XTs00b, <<>>), XcSalOf(AL!SalPartial01(1, XTs01), 1, XTs01, <<>>),
            XcSalOf(AL!SalPartial10(1, XTs10), 1, XTs10, <<>>), XcSalOf(AL!SalPartial11(XP2), 0, <<>>, <<XP2>>),
            XcSalOf(AL!SalPartial00(0, XTs00) \o AL!SalPartial11(XP2), 0, XTs00, <<XP2>>),
            XcSalOf(AL!SalPartial00(1, XTs16), 1, XTs16, <<>>),
            XcMal(AL!SalPartial00(0, XTs00) \o AL!SalPartial01(1, XTs01)),    \* allowed and non-allowed partial lists mixed
            XcMal(XcCut(AL!SalPartial00(0, XTs00), 1)), XcMal(XcSet(AL!SalPartial11(XP2), 3, 250)), XcMal(<<31, 0, 0, 0>>) >>
XLadn1 == [dnn |-> XDnn1, tais |-> XTs00]
XLadn2 == [dnn |-> XDnn2, tais |-> XTs10]
XcLadnInfoOf(c, ls) == XcWf(c, <<XcE("raw", c), XcE("list", [i \in 1..Len(ls) |-> [dnn |-> ls[i].dnn, tais |-> RxTais(ls[i].tais)]])>>)
XLadn1b == [dnn |-> XDnn1b, tais |-> XTs00b]
XcLadnInfo == << XcLadnInfoOf(AL!LadnEnc(XLadn1, AL!Partial00(XTs00)), <<XLadn1>>), XcLadnInfoOf(AL!LadnEnc(XLadn1b, AL!Partial00(XTs00b)), <<XLadn1b>>),
                 XcLadnInfoOf(AL!LadnEnc(XLadn1, AL!Partial00(XTs00)) \o AL!LadnEnc(XLadn2, AL!Partial10(XTs10)), <<XLadn1, XLadn2>>),
                 XcLadnInfoOf(AL!LadnEnc([dnn |-> XDnn3, tais |-> XTs16], AL!Partial00(XTs16)), <<[dnn |-> XDnn3, tais |-> XTs16]>>),
                 XcLadnInfoOf(<<>>, <<>>),
                 XcMal(<<0, 7>> \o AL!Partial01(XTs01)),                                   \* empty DNN
                 XcMal(XcCut(AL!LadnEnc(XLadn1, AL!Partial00(XTs00)), 2)),                 \* TAI list runs past the end
                 XcMal(AL!LadnEnc(XLadn2, XcSet(AL!Partial10(XTs10), 1, 66))),             \* inner TAI list announces three elements
                 XcMal(<<1, 1, 0>>), XcMal(<<3, 1, 1>>), XcMal(<<1, 1, 7, 0, 0, 240, 16, 0, 0>>) >>

\* ------------------------------------------------------------------ small fixed elements (TS 24.501 figures; n = element type)
XcU8(n, o) ==
  LET fs == CASE n = "NgksiAndRegistrationType5GS" -> <<o \div 128, (o \div 16) % 8, (o \div 8) % 2, o % 8>>
              [] n = "NgksiAndDeregistrationType" -> <<o \div 128, (o \div 16) % 8, (o \div 8) % 2, (o \div 4) % 2, o % 4>>
              [] n = "ServiceTypeAndNgksi" -> <<o \div 16, (o \div 8) % 2, o % 8>>
              [] n = "SpareHalfOctetAndPayloadContainerType" -> <<o % 16>>
              [] n \in {"RequestType", "PDUSessionType", "SSCMode"} -> <<o % 8>>
              [] n = "SelectedSSCModeAndSelectedPDUSessionType" -> <<(o \div 16) % 8, o % 8>>
              [] OTHER -> <<o>>
  IN XcWf(<<o>>, <<XcE("fields", fs)>>)
XcOctets(n) == CASE n \in {"RequestType", "PDUSessionType", "SSCMode"} -> <<1, 0, 2, 3, 4, 5, 6, 7, 8, 9, 13, 15>>
                 [] n = "SpareHalfOctetAndPayloadContainerType" -> <<1, 0, 5, 15, 241>>
                 [] n \in {"PduSessionID2Value", "OldPDUSessionID", "PDUSessionID"} -> <<5, 0, 1, 15, 16, 255>>
                 [] n = "Cause5GMM" -> <<111, 3, 62, 0, 255>>
                 [] OTHER -> <<121, 0, 255, 8, 241, 23, 128, 114, 9, 74, 173>>
XcFields(n) ==
  IF n = "IntegrityProtectionMaximumDataRate"
  THEN << XcWf(<<255, 0>>, <<XcE("fields", <<255, 0>>)>>), XcWf(<<0, 255>>, <<XcE("fields", <<0, 255>>)>>), XcWf(<<1, 2>>, <<XcE("fields", <<1, 2>>)>>) >>
  ELSE [i \in 1..Len(XcOctets(n)) |-> XcU8(n, XcOctets(n)[i])]
\* PDU session type by NAME (TS 29.571): the value the name stands for, and back
XcPduNames == <<"IPV4", "IPV6", "IPV4V6", "UNSTRUCTURED", "ETHERNET">>
XcPduType == [i \in 1..5 |-> XcWf(<<MV!McPduValue(XcPduNames[i])>>, <<XcE("fields", <<MV!McPduValue(XcPduNames[i])>>), XcE("name", XcPduNames[i])>>)]
             \o << XcU8("PDUSessionType", 0), XcU8("PDUSessionType", 6), XcU8("PDUSessionType", 7), XcU8("PDUSessionType", 9), XcU8("PDUSessionType", 15) >>
XcSelected == [i \in 1..5 |-> LET x == MV!McPduValue(XcPduNames[i])  ssc == 1 + (i % 3) IN
                 XcWf(<<16 * ssc + x>>, <<XcE("fields", <<ssc, x>>), XcE("name", XcPduNames[i])>>)]
              \o << XcU8("SelectedSSCModeAndSelectedPDUSessionType", 0), XcU8("SelectedSSCModeAndSelectedPDUSessionType", 255),
                    XcU8("SelectedSSCModeAndSelectedPDUSessionType", 150), XcU8("SelectedSSCModeAndSelectedPDUSessionType", 120) >>
\* T3512 (GPRS timer 3) by unit and value
XcT3512Of(u, x) == XcWf(<<32 * u + x>>, <<XcE("fields", <<u, x>>), XcE("seconds", IF u = 7 THEN TR!Deactivated ELSE TR!Timer3Mult(u) * x)>>)
XcT3512 == << XcT3512Of(0, 6), XcT3512Of(1, 1), XcT3512Of(2, 31), XcT3512Of(3, 0), XcT3512Of(4, 17), XcT3512Of(5, 30), XcT3512Of(6, 31), XcT3512Of(7, 0), XcT3512Of(7, 31) >>

\* ------------------------------------------------------------------ DNN
XL_internet == <<105, 110, 116, 101, 114, 110, 101, 116>>
XL_intranet == <<105, 110, 116, 114, 97, 110, 101, 116>>
XL_ims == <<105, 109, 115>>
XL_mnc == <<109, 110, 99, 48, 57, 51>>
XL_mcc == <<109, 99, 99, 50, 48, 56>>
XL_gprs == <<103, 112, 114, 115>>
XcDnnOf(ls) == XcWf(MV!McDnnEncode(ls), <<XcE("text", MV!McJoin(ls))>>)
XcDnn == << XcDnnOf(<<XL_internet>>), XcDnnOf(<<XL_intranet>>), XcDnnOf(<<XL_ims, XL_mnc, XL_mcc, XL_gprs>>), XcDnnOf(<<<<105, 111, 116>>, XL_mcc, XL_mnc, XL_gprs>>), XcDnnOf(<<XcRep(62, 97)>>), XcDnnOf(<<<<97>>, <<98>>, <<99>>>>),
            XcDnnOf(<<XcRep(62, 97), XcRep(36, 98)>>),                        \* exactly 100 octets
            XcMal(<<0>>), XcMal(<<5, 97>>), XcMal(<<3, 97, 98, 99, 0>>), XcMal(<<1, 97, 64>> \o XcRep(20, 98)),
            XcMal(<<>>), XcMal(XcRep(101, 1)) >>

\* ------------------------------------------------------------------ extended protocol configuration options
XU(id, c) == [id |-> id, len |-> Len(c), contents |-> c]
XcPcoOf(us) == XcWf(PG!Marshal(us), <<XcE("units", us)>>)
XcPco == << XcPcoOf(<<XU(13, <<>>), XU(10, <<>>)>>), XcPcoOf(<<XU(3, <<>>), XU(13, <<>>)>>), XcPcoOf(<<>>), XcPcoOf(<<XU(13, <<8, 8, 4, 4>>)>>), XcPcoOf(<<XU(12, <<1, 1, 1, 1>>)>>),
            XcPcoOf(<<XU(16, <<5, 220>>), XU(3, XcRep(16, 32)), XU(12, <<10, 0, 0, 1>>)>>), XcPcoOf(<<XU(65535, XcRep(255, 170))>>),
            XcWf(<<0>> \o PG!MarshalUnits(<<XU(13, <<>>)>>), <<XcE("units", <<XU(13, <<>>)>>)>>),   \* the configuration octet is not read by the grammar
            XcMal(<<128, 0>>), XcMal(<<128, 0, 13>>), XcMal(<<128, 0, 13, 4, 8, 8>>), XcMal(PG!Marshal(<<XU(13, <<>>)>>) \o <<0, 3, 9>>),
            XcMal(<<>>) >>

\* ------------------------------------------------------------------ session AMBR
XcAmbrOf(v, u, w, u2) == LET c == TR!AmbrEncode(v, u, w, u2) IN
                         XcWf(c, <<XcE("raw", c), XcE("rates", [dlv |-> v, dlu |-> <<1, TR!AmbrPrefixIndex(u)>>, ulv |-> w, ulu |-> <<1, TR!AmbrPrefixIndex(u2)>>])>>)
XcAmbr == << XcAmbrOf(100, "Mbps", 50, "Mbps"), XcAmbrOf(1, "Kbps", 65535, "Pbps"), XcAmbrOf(32768, "Gbps", 0, "Tbps"),
             XcWf(<<0, 1, 2, 26, 3, 4>>, <<XcE("raw", <<0, 1, 2, 26, 3, 4>>)>>), XcMal(<<1, 0, 1, 1, 0>>), XcMal(<<1, 0, 1, 1, 0, 1, 0>>) >>

\* ------------------------------------------------------------------ QoS rules and flow descriptions
XC(t, f) == [t |-> t, f |-> f]
XPf(id, dir, cs) == [id |-> id, dir |-> dir, comps |-> cs]
XRule(id, op, dqr, pfs, prec, seg, qfi) == [id |-> id, op |-> op, dqr |-> dqr, filters |-> pfs, prec |-> prec, seg |-> seg, qfi |-> qfi]
XR1 == XRule(1, 1, TRUE, <<XPf(1, 3, <<XC(1, <<>>)>>)>>, 255, FALSE, 1)
XR2 == XRule(2, 1, FALSE, <<XPf(1, 2, <<XC(16, <<10, 0, 0, 1, 255, 255, 255, 0>>), XC(80, <<443>>)>>),
                            XPf(15, 1, <<XC(48, <<17>>), XC(65, <<1024, 65535>>), XC(128, <<1048575>>)>>)>>, 10, TRUE, 63)
XR3 == XRule(3, 5, FALSE, <<XPf(3, 0, <<>>), XPf(9, 0, <<>>)>>, 0, FALSE, 0)
XR4 == XRule(255, 2, FALSE, <<>>, 0, FALSE, 0)
XR5 == XRule(7, 3, FALSE, <<XPf(0, 3, <<XC(129, <<1, 2, 3, 4, 5, 6>>), XC(131, <<4095>>), XC(133, <<15>>), XC(135, <<2048>>), XC(96, <<65535, 1>>), XC(112, <<184, 252>>)>>)>>, 1, FALSE, 5)
XcRulesOf(rs) == XcWf(QG!MarshalRules(rs), <<XcE("rules", rs)>>)
XcQosRules == << XcRulesOf(<<XR1>>), XcRulesOf(<<XRule(9, 1, FALSE, <<XPf(2, 1, <<XC(1, <<>>)>>)>>, 10, TRUE, 9)>>), XcRulesOf(<<XR2>>), XcRulesOf(<<XR1, XR3>>), XcRulesOf(<<XR4>>), XcRulesOf(<<XR5, XR2, XR1>>),
                 XcMal(XcCut(QG!MarshalRules(<<XR1>>), 1)),                                 \* last octet missing
                 XcMal(XcSet(QG!MarshalRules(<<XR1>>), 7, 2)),                              \* unknown packet filter component type
                 XcMal(XcSet(QG!MarshalRules(<<XR2>>), 3, 1 + QG!MarshalRules(<<XR2>>)[3])),  \* rule length one too large
                 XcMal(XcSet(QG!MarshalRules(<<XR1>>), 4, 50)),                             \* two packet filters announced, one there
                 XcMal(XcSet(QG!MarshalRules(<<XR2>>), 7, 33)),                             \* IPv6 component type (not among the 18)
                 XcMal(<<1, 0, 2, 64, 0>>), XcMal(<<1, 0, 0>>), XcMal(<<>>) >>
XPm(id, f) == [id |-> id, f |-> f]
XDesc(qfi, op, ps) == [qfi |-> qfi, op |-> op, params |-> ps]
XD1 == XDesc(1, 1, <<XPm(1, <<9>>)>>)
XD2 == XDesc(63, 1, <<XPm(1, <<5>>), XPm(2, <<1, 1000>>), XPm(3, <<6, 65535>>), XPm(4, <<11, 1>>), XPm(5, <<16, 2>>), XPm(6, <<2000>>), XPm(7, <<5>>)>>)
XD3 == XDesc(2, 2, <<>>)
XD4 == XDesc(0, 3, <<XPm(6, <<0>>)>>)
XcDescsOf(ds) == XcWf(QG!MarshalDescs(ds), <<XcE("descs", ds)>>)
XcQosDescs == << XcDescsOf(<<XD1>>), XcDescsOf(<<XDesc(5, 1, <<XPm(1, <<5>>)>>)>>), XcDescsOf(<<XD2>>), XcDescsOf(<<XD3>>), XcDescsOf(<<XD1, XD3, XD4>>),
                 XcMal(XcSet(QG!MarshalDescs(<<XD1>>), 4, 9)),                              \* unknown parameter identifier
                 XcMal(XcCut(QG!MarshalDescs(<<XD2>>), 1)),
                 XcMal(XcSet(QG!MarshalDescs(<<XD1>>), 5, 2)),                              \* parameter length 2 for a 5QI
                 XcMal(XcSet(QG!MarshalDescs(<<XD1>>), 3, 66)),                             \* two parameters announced, one there
                 XcMal(<<1, 32>>), XcMal(<<>>) >>

\* ------------------------------------------------------------------ network names, time zone, time
XcNameOf(nm) == LET c == TR!NameContents(nm) IN
                XcWf(c, <<XcE("fields", <<1, 0, 0, TR!SpareBits(Len(nm))>>), XcE("text", TR!Pack7(nm)), XcE("name", nm)>>)
XN(n) == [i \in 1..n |-> 64 + i]
XcName == << XcNameOf(XN(9)), XcNameOf([i \in 1..9 |-> 96 + i]), XcNameOf(XN(1)), XcNameOf(XN(7)), XcNameOf(XN(8)), XcNameOf(<<>>), XcNameOf(<<127, 0, 127, 1, 64, 32, 16, 8, 4, 2>>),
             XcNameOf(XN(26)),
             XcWf(<<152, 0, 65, 0, 66>>, <<XcE("fields", <<1, 1, 1, 0>>), XcE("text", <<0, 65, 0, 66>>)>>),       \* UCS2, add CI: no 7-bit name
             XcMal(<<135>>), XcMal(<<7, 65>>), XcMal(<<132, 65, 66>>), XcMal(<<>>) >>
XcTzOf(q) == XcWf(<<TR!ZoneEncode(q)>>, <<XcE("text", TR!ZoneText(q))>>)
XcTz == << XcTzOf(8), XcTzOf(0), XcTzOf(-1), XcTzOf(1), XcTzOf(-32), XcTzOf(22), XcTzOf(79), XcTzOf(-79), XcTzOf(-48),
           XcMal(<<160>>), XcMal(<<255>>), XcMal(<<170>>) >>
XcDst == << XcWf(<<1>>, <<XcE("text", TR!DstText(1))>>), XcWf(<<0>>, <<XcE("text", TR!DstText(0))>>), XcWf(<<2>>, <<XcE("text", TR!DstText(2))>>),
            XcMal(<<3>>), XcMal(<<255>>), XcMal(<<4>>) >>
XSt(y, mo, d, h, mi, s, q) == [y |-> y, mo |-> mo, d |-> d, h |-> h, mi |-> mi, s |-> s, q |-> q]
XcUtOf(s) == LET i == TR!Instant(s) IN
             XcWf(TR!StampEncode(s), <<XcE("time", <<s.y, s.mo, s.d, s.h, s.mi, s.s, s.q * 900, i[1], i[2]>>)>>)
XcUt == << XcUtOf(XSt(2026, 10, 1, 19, 30, 59, 8)), XcUtOf(XSt(2000, 2, 29, 0, 0, 0, -48)), XcUtOf(XSt(2099, 12, 31, 23, 59, 59, 79)),
           XcUtOf(XSt(2038, 1, 19, 3, 14, 8, 0)), XcUtOf(XSt(2024, 3, 1, 0, 14, 59, 1)),
           XcMal(XcSet(TR!StampEncode(XSt(2026, 10, 1, 19, 30, 59, 8)), 2, 49)),          \* month 13
           XcMal(XcSet(TR!StampEncode(XSt(2026, 10, 1, 19, 30, 59, 8)), 3, 250)),         \* a digit F
           XcMal(XcSet(TR!StampEncode(XSt(2025, 2, 28, 19, 30, 59, 8)), 3, 146)),         \* 29 February 2025
           XcMal(XcSet(TR!StampEncode(XSt(2026, 10, 1, 19, 30, 59, 8)), 7, 175)),         \* zone with a non-decimal digit
           XcMal(<<0, 0, 0, 0, 0, 0, 0>>), XcMal(<<1, 2, 3>>) >>

\* ------------------------------------------------------------------ payload container: a 5GSM message inside
XInner1 == <<46, 5, 1, 193, 255, 255>>                                   \* PDU SESSION ESTABLISHMENT REQUEST, mandatory part
XInner2 == XInner1 \o <<145, 161, 123, 0, 4, 128, 0, 13, 0>>             \* + PDU session type, SSC mode, extended PCO
XcContOf(c, ok, m) == XcWf(c, <<XcE("raw", c), XcE("inner", [ok |-> ok, msg |-> m])>>)
XcContainer == << XcContOf(XInner1, TRUE, "PDUSessionEstablishmentRequest"), XcContOf(<<46, 6, 2, 193, 0, 1>>, TRUE, "PDUSessionEstablishmentRequest"), XcContOf(XInner2, TRUE, "PDUSessionEstablishmentRequest"),
                  XcContOf(<<46, 1, 1>>, FALSE, ""), XcContOf(<<1, 2, 3, 4>>, FALSE, ""), XcContOf(<<46, 5, 1, 193, 255>>, FALSE, ""),
                  XcWf(XInner1 \o <<3, 3>>, <<XcE("raw", XInner1 \o <<3, 3>>)>>),                  \* unknown identifiers behind the message
                  XcMal(XInner2 \o <<123, 0>>), XcMal(<<>>) >>

\* ------------------------------------------------------------------ cases by reader kind (n = element type for the table-driven kinds)
XcCasesDef(kind, n) ==
  CASE kind \in {"id5gs", "idplain"} -> XcIdentity(kind)
    [] kind = "guti" -> XcGuti       [] kind = "stmsi" -> XcStmsi       [] kind = "nssai" -> XcNssai
    [] kind = "snssai" -> XcSnssai   [] kind = "rejnssai" -> XcRejNssai [] kind = "psi" -> XcPsi
    [] kind = "seccap" -> XcSecCap   [] kind = "ladnind" -> XcLadnInd   [] kind = "tai" -> XcTai
    [] kind = "tailist" -> XcTaiList [] kind = "sal" -> XcSal           [] kind = "ladninfo" -> XcLadnInfo
    [] kind = "fields" -> XcFields(n) [] kind = "pdutype" -> XcPduType  [] kind = "selected" -> XcSelected
    [] kind = "t3512" -> XcT3512     [] kind = "dnn" -> XcDnn           [] kind = "pco" -> XcPco
    [] kind = "ambr" -> XcAmbr       [] kind = "qosrules" -> XcQosRules [] kind = "qosdescs" -> XcQosDescs
    [] kind = "name" -> XcName       [] kind = "tz" -> XcTz             [] kind = "dst" -> XcDst
    [] kind = "ut" -> XcUt           [] kind = "container" -> XcContainer
\* the table is computed once (TLCEval); the key is the kind, or the element type for the table-driven kind "fields"
XcKey(kind, n) == IF kind = "fields" THEN n ELSE kind
XcKeys == {<<RxBound[i].r, RxBound[i].s>> : i \in 1..Len(RxBound)}
XcTab == TLCEval([key \in {XcKey(p[1], p[2]) : p \in XcKeys} |->
                    LET p == CHOOSE q \in XcKeys : XcKey(q[1], q[2]) = key IN XcCasesDef(p[1], p[2])])
XcCases(kind, n) == XcTab[XcKey(kind, n)]
\* every well-formed case reads as it says, on the reader alone (the message-level law is in MC_X03)
XcCaseOK(kind, n, cs) ==
  cs.wf => LET rs == RxRead(kind, n, cs.c) IN
           \A i \in 1..Len(cs.x) : \E j \in 1..Len(rs) : rs[j].a = cs.x[i].a /\ rs[j].st = "val" /\ rs[j].v = cs.x[i].v
=============================================================================
