--------------------------------- MODULE Eea ---------------------------------
(* The confidentiality functions 128-EEA1 (= UEA2 f8 over SNOW 3G), 128-EEA2 (AES-128-CTR) and
   128-EEA3 (ZUC) with the TS 33.401 Annex B.1 parameter mapping, which TS 33.501 Annex D.2 adopts
   unchanged for 128-NEA1/2/3:
       key 128 bits, COUNT 32 bits, BEARER 5 bits, DIRECTION 1 bit, LENGTH bits of input.
   COUNT is 4 octets (most significant first); data are octet strings, bit 0 first.
   The result is the first `nbits` bits (NBytes(nbits) octets, unused low bits of the last octet 0):
   the standards define nothing beyond LENGTH bits. *)
EXTENDS CryptoBits
S3G == INSTANCE Snow3G
ZUC == INSTANCE Zuc
AES == INSTANCE Aes128
\* BEARER || DIRECTION || 0^2 in one octet
BD(bearer, dir) == bearer * 8 + dir * 4
\* UEA2 3.4 / UIA2 4.4 key loading: K3 = first word of the key ... K0 = last word; SNOW 3G takes <<k0,k1,k2,k3>>
KeyW(ck) == << W(ck, 13), W(ck, 9), W(ck, 5), W(ck, 1) >>
\* UEA2: IV3 = COUNT, IV2 = BEARER||DIRECTION||0^26, IV1 = IV3, IV0 = IV2
EEA1iv(cnt, bearer, dir) == << <<BD(bearer, dir), 0, 0, 0>>, cnt, <<BD(bearer, dir), 0, 0, 0>>, cnt >>
EEA1ks(ck, cnt, bearer, dir, nbits) == FlatW(S3G!KeyStream(KeyW(ck), EEA1iv(cnt, bearer, dir), (nbits + 31) \div 32))
XorBits(data, ks, nbits) == LET n == NBytes(nbits) IN MaskBits(SubSeq([i \in 1..n |-> data[i] ^^ ks[i]], 1, n), nbits)
EEA1(ck, cnt, bearer, dir, data, nbits) == XorBits(data, EEA1ks(ck, cnt, bearer, dir, nbits), nbits)
\* 128-EEA2 (B.1.3): T1 = COUNT || BEARER || DIRECTION || 0^26 || 0^64, CTR mode
EEA2ctr(cnt, bearer, dir) == cnt \o <<BD(bearer, dir)>> \o Zeros(11)
EEA2(k, cnt, bearer, dir, data, nbits) ==
  LET n == NBytes(nbits) IN MaskBits(AES!CtrXor(k, EEA2ctr(cnt, bearer, dir), SubSeq(data, 1, n)), nbits)
\* 128-EEA3 (EEA3/EIA3 Document 1, 3.3): IV[0..3] = COUNT, IV[4] = BEARER||DIRECTION||00, IV[5..7] = 0, IV[8+i] = IV[i]
EEA3iv(cnt, bearer, dir) == LET h == cnt \o <<BD(bearer, dir), 0, 0, 0>> IN h \o h
EEA3(ck, cnt, bearer, dir, data, nbits) ==
  XorBits(data, ZUC!ZucBytes(ck, EEA3iv(cnt, bearer, dir), (nbits + 31) \div 32), nbits)
EEA(alg, k, cnt, bearer, dir, data, nbits) ==
  CASE alg = 1 -> EEA1(k, cnt, bearer, dir, data, nbits)
    [] alg = 2 -> EEA2(k, cnt, bearer, dir, data, nbits)
    [] alg = 3 -> EEA3(k, cnt, bearer, dir, data, nbits)
    [] alg = 0 -> MaskBits(data, nbits)                      \* NULL ciphering (TS 33.501 D.1)
\* the raw generators with the library's calling convention: key / iv as 16 octets, n 32-bit words, result as octets
Snow3gWords(k16, iv16, n) == FlatW(S3G!KeyStream(<<W(k16,1), W(k16,5), W(k16,9), W(k16,13)>>, <<W(iv16,1), W(iv16,5), W(iv16,9), W(iv16,13)>>, n))
ZucWords(k16, iv16, n) == ZUC!ZucBytes(k16, iv16, n)
==============================================================================
