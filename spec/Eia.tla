--------------------------------- MODULE Eia ---------------------------------
(* The integrity functions 128-EIA1 (= UIA2 f9 over SNOW 3G, with FRESH := BEARER || 0^27),
   128-EIA2 (AES-128-CMAC over COUNT || BEARER || DIRECTION || 0^26 || MESSAGE, 32 most significant
   bits) and 128-EIA3 (ZUC universal hash), TS 33.401 Annex B.2 = TS 33.501 Annex D.3.
   The message is `nbits` bits of `msg`; the 4-octet MAC is returned. *)
EXTENDS Eea, Gf64, FiniteSets, FiniteSetsExt
CM == INSTANCE Cmac
Len64(nbits) == <<0, 0, 0, 0>> \o U32(nbits)
\* UIA2 4.4: IV3 = COUNT, IV2 = FRESH, IV1 = COUNT xor DIR<<31, IV0 = FRESH xor DIR<<15;
\* z1..z5; P = z1||z2, Q = z3||z4; EVAL over D-1 = ceil(LENGTH/64) blocks; xor LENGTH; mul Q; MAC = top 32 bits xor z5
EIA1(ik, cnt, bearer, dir, msg, nbits) ==
   LET fresh == <<bearer * 8, 0, 0, 0>>
       iv0 == <<fresh[1], 0, dir * 128, 0>>
       iv1 == <<cnt[1] ^^ (dir * 128), cnt[2], cnt[3], cnt[4]>>
       z == S3G!KeyStream(KeyW(ik), <<iv0, iv1, fresh, cnt>>, 5)
       P == z[1] \o z[2]  Q == z[3] \o z[4]
       nblk == (nbits + 63) \div 64
       m == MaskBits(msg, nbits)
       ev == EvalBlocks(m, nbits, P, 0, nblk, Z8)
       fin == Mul64(XorS(ev, Len64(nbits)), Q)
   IN XorS(SubSeq(fin, 1, 4), z[5])
\* B.2.3: M = COUNT || BEARER || DIRECTION || 0^26 || MESSAGE (octet-aligned messages; BLENGTH = LENGTH + 64)
EIA2(k, cnt, bearer, dir, msg, nbits) == SubSeq(CM!Cmac(k, cnt \o <<BD(bearer, dir), 0, 0, 0>> \o SubSeq(msg, 1, NBytes(nbits))), 1, 4)
\* EEA3/EIA3 Document 1, 4.3: IV[0..3] = COUNT, IV[4] = BEARER||000, IV[5..7] = 0, IV[8] = IV[0] xor DIR<<7, IV[9..13] = IV[1..5],
\* IV[14] = IV[6] xor DIR<<7, IV[15] = IV[7]
EIA3iv(cnt, bearer, dir) == << cnt[1], cnt[2], cnt[3], cnt[4], bearer * 8, 0, 0, 0,
                               cnt[1] ^^ (dir * 128), cnt[2], cnt[3], cnt[4], bearer * 8, 0, dir * 128, 0 >>
\* the 32-bit window z[i..i+31] of the keystream bit string
Win(ks, i) == LET j == i \div 8 r == i % 8 IN
   SubSeq([t \in 1..4 |-> IF r = 0 THEN ks[j + t] ELSE ((ks[j + t] * 2^r) % 256) + (ks[j + t + 1] \div 2^(8 - r))], 1, 4)
\* 4.4: L = ceil(LENGTH/32) + 2 words; T = xor of z_i over the set message bits; T ^= z_LENGTH; MAC = T xor z_{32(L-1)}
EIA3(ik, cnt, bearer, dir, msg, nbits) ==
   LET L == (nbits + 31) \div 32 + 2
       ks == ZUC!ZucBytes(ik, EIA3iv(cnt, bearer, dir), L) \o <<0>>
       ones == {i \in 0..(nbits - 1) : BitOf(msg, i) = 1}
       T == FoldSet(LAMBDA i, acc : XorS(acc, Win(ks, i)), <<0, 0, 0, 0>>, ones)
   IN XorS(XorS(T, Win(ks, nbits)), Win(ks, 32 * (L - 1)))
EIA(alg, k, cnt, bearer, dir, msg, nbits) ==
  CASE alg = 1 -> EIA1(k, cnt, bearer, dir, msg, nbits)
    [] alg = 2 -> EIA2(k, cnt, bearer, dir, msg, nbits)
    [] alg = 3 -> EIA3(k, cnt, bearer, dir, msg, nbits)
    [] alg = 0 -> <<0, 0, 0, 0>>                             \* NULL integrity (TS 33.501 D.1)
==============================================================================
