------------------------------- MODULE Pco -------------------------------
(* C16 - the reader of a protocol-configuration-options value as a state machine:
     Start -> ReadingID -> ReadingLength -> ReadingContent -> ReadingID -> ... -> Done | Error
   `remaining` is the reader's own account of the octets not yet consumed; `off` is a ghost
   variable: the number of octets actually consumed.  Each produced unit carries the ghost
   position `at` of its contents in the input.
   An initial state is one input: the first `cut` octets of Marshal(src) for a unit list src
   (every truncation point), or a free octet string over a small alphabet (Malformed).
   TLC checks (MC_C16): accounting, termination measure, every unit is the sub-sequence of the
   input the grammar gives, order, agreement with the declarative grammar PcoGrammar!Units,
   and Parse(Marshal(x)) = x. *)
EXTENDS PcoGrammar, TLC
CONSTANTS Ids,        \* identifier classes used to build unit lists
          Lens,       \* content lengths
          MaxUnits,   \* longest generated list
          Alphabet,   \* octets of the free (malformed) inputs
          MaxFree     \* longest free input
VARIABLES src, cut, data, st, remaining, off, cur, units
vars == <<src, cut, data, st, remaining, off, cur, units>>

\* contents of the k-th unit: distinguishable octets, so that a shifted window is detected
Fill(k, n) == [j \in 1..n |-> (k * 37 + j * 11) % 251]
Shapes == UNION {[1..n -> Ids \X Lens] : n \in 0..MaxUnits}
Build(sh) == [k \in 1..Len(sh) |-> [id |-> sh[k][1], len |-> sh[k][2], contents |-> Fill(k, sh[k][2])]]
FreeInputs == UNION {[1..n -> Alphabet] : n \in 0..MaxFree}
NoSrc == <<[id |-> -1, len |-> -1, contents |-> <<>>]>>     \* marks a free input

Running == {"ReadingID", "ReadingLength", "ReadingContent"}
Final   == {"Done", "Error"}

\* the inputs: AllCuts = every truncation point of every marshalled list (model checking);
\* otherwise only the whole marshalled forms (case generation)
Inputs(AllCuts) ==
        /\ \/ /\ src \in {Build(sh) : sh \in Shapes}
              /\ cut \in (IF AllCuts THEN 0..Len(Marshal(src)) ELSE {Len(Marshal(src))})
              /\ data = SubSeq(Marshal(src), 1, cut)
           \/ /\ src = NoSrc /\ data \in FreeInputs /\ cut = Len(data)
        /\ st = "Start" /\ remaining = 0 /\ off = 0
        /\ cur = [id |-> 0, len |-> 0] /\ units = <<>>
Init == Inputs(TRUE)
InitWhole == Inputs(FALSE)

Avail == Len(data) - off      \* octets the input really still has (ghost)

Start == /\ st = "Start"
         /\ IF Avail < 1 THEN st' = "Error" /\ UNCHANGED <<remaining, off>>
            ELSE st' = "ReadingID" /\ off' = 1 /\ remaining' = Len(data) - 1
         /\ UNCHANGED <<src, cut, data, cur, units>>

Exit == /\ st \in Running /\ remaining <= 0 /\ st' = "Done"
        /\ UNCHANGED <<src, cut, data, remaining, off, cur, units>>

ReadID == /\ st = "ReadingID" /\ remaining > 0
          /\ IF Avail < 2 THEN st' = "Error" /\ UNCHANGED <<remaining, off, cur>>
             ELSE /\ cur' = [id |-> data[off + 1] * 256 + data[off + 2], len |-> 0]
                  /\ off' = off + 2 /\ remaining' = remaining - 2 /\ st' = "ReadingLength"
          /\ UNCHANGED <<src, cut, data, units>>

ReadLength == /\ st = "ReadingLength" /\ remaining > 0
              /\ IF Avail < 1 THEN st' = "Error" /\ UNCHANGED <<remaining, off, cur, units>>
                 ELSE /\ cur' = [cur EXCEPT !.len = data[off + 1]]
                      /\ off' = off + 1 /\ remaining' = remaining - 1 /\ st' = "ReadingContent"
                      /\ units' = IF data[off + 1] = 0
                                  THEN Append(units, [id |-> cur.id, len |-> 0, at |-> off + 2, contents |-> <<>>])
                                  ELSE units
              /\ UNCHANGED <<src, cut, data>>

ReadContent == /\ st = "ReadingContent" /\ remaining > 0
               /\ IF cur.len = 0 THEN st' = "ReadingID" /\ UNCHANGED <<remaining, off, units>>
                  ELSE IF Avail < cur.len THEN st' = "Error" /\ UNCHANGED <<remaining, off, units>>
                  ELSE /\ units' = Append(units, [id |-> cur.id, len |-> cur.len, at |-> off + 1,
                                                  contents |-> SubSeq(data, off + 1, off + cur.len)])
                       /\ off' = off + cur.len /\ remaining' = remaining - cur.len /\ st' = "ReadingID"
               /\ UNCHANGED <<src, cut, data, cur>>

Halt == st \in Final /\ UNCHANGED vars       \* final states stutter, so that TLC's deadlock check means
                                            \* "the reader is never stuck before a final state"
Next == Start \/ Exit \/ ReadID \/ ReadLength \/ ReadContent \/ Halt
Spec == Init /\ [][Next]_vars /\ WF_vars(Next)

\* ------------------------------------------------------------------ properties
Generated == src # NoSrc
Whole     == Generated /\ cut = Len(Marshal(src))

Accounting == st \in Running => (remaining = Avail /\ remaining >= 0)
\* termination: a non-negative measure that every step of the running reader strictly decreases
\* (4*remaining + phase; one cycle ID -> Length -> Content -> ID consumes >= 3 octets)
Phase == CASE st = "Start" -> 3 [] st = "ReadingID" -> 0 [] st = "ReadingLength" -> 2 [] st = "ReadingContent" -> 1 [] OTHER -> -1
Measure == IF st = "Start" THEN 4 * Len(data) + 3 ELSE IF st \in Final THEN -1 ELSE 4 * remaining + Phase
MeasureDecreases == [][Measure' < Measure]_vars
MeasureBounded == Measure >= -1
Terminates == <>(st \in Final)
PerCycle == [][(st = "ReadingContent" /\ st' = "ReadingID") => remaining' <= remaining]_vars

\* every produced unit is the part of the input the grammar gives it, in order
UnitsInInput == \A k \in 1..Len(units) :
                  LET u == units[k] IN
                  /\ u.at >= 5 /\ u.at + u.len - 1 <= Len(data)
                  /\ u.contents = SubSeq(data, u.at, u.at + u.len - 1)
                  /\ u.id = data[u.at - 3] * 256 + data[u.at - 2] /\ u.len = data[u.at - 1]
Ordered == \A k \in 1..Len(units) : units[k].at = (IF k = 1 THEN 5 ELSE units[k - 1].at + units[k - 1].len + 3)
\* while running, the units so far are a prefix of the grammar's; at the end they are all of them
AgreesWithGrammar == /\ IsPrefix(units, Units(data))
                     /\ st \in Final => units = Units(data)
                     /\ st = "Done" /\ Exact(data) => Len(units) = Len(Units(data))
\* Parse(Marshal(x)) = x, and a truncated Marshal(x) gives a prefix of x
RoundTrip == (Whole /\ st \in Final) => (st = "Done" /\ StripAll(units) = src /\ Exact(data))
Truncated == (Generated /\ st \in Final) => IsPrefix(StripAll(units), src)
FirstOctet == (Generated /\ cut >= 1) => data[1] = 128
ExactIffWhole == (Generated /\ WellFormedList(src)) => (Exact(data) <=> \E k \in 0..Len(src) : cut = Len(Marshal(SubSeq(src, 1, k))))
\* an exact input is never refused
ExactAccepted == (st \in Final /\ Exact(data)) => st = "Done"
TypeOK == /\ st \in {"Start"} \cup Running \cup Final
          /\ off \in 0..Len(data)
=========================================================================
