------------------------------ MODULE NasDispatch ------------------------------
(* C05: routing on the extended protocol discriminator and the message-type octet.
   Route(entry, inp) is the set of message tables a decode entry point may hand the input to:
   empty (error) or a singleton.  PlainNasDecode routes on octet 1 (0x7E -> 5GMM by octet 3,
   0x2E -> 5GSM by octet 4, anything else error); the family entry points route on the type octet only.
   MinimalMsg(M, b1) is the shortest grammatical instance of M (every mandatory element at its minimum
   length, contents zero), so success is possible exactly when routing says so. *)
EXTENDS NasCodec
Zeros(n) == [i \in 1..n |-> 0]
HdrLen(M) == IF M.fam = "GSM" THEN 4 ELSE IF M.fam = "GMM" THEN 3 ELSE 2
MinLen(s) == IF s.lsz = 0 THEN s.max ELSE IF s.lens # {} THEN CHOOSE x \in s.lens : \A y \in s.lens : x <= y ELSE s.min
RECURSIVE MinBody(_, _)
MinBody(M, k) == IF k > Len(M.mand) THEN <<>>
                 ELSE LET s == M.mand[k] IN LenBytes(s.lsz, MinLen(s)) \o Zeros(MinLen(s)) \o MinBody(M, k + 1)
\* x2, x3: the header octets routing does not look at (security header / PDU session id, PTI)
MinimalMsg(M, b1, x2, x3) == (IF M.fam = "GSM" THEN <<b1, x2, x3, M.mt>> ELSE <<b1, x2, M.mt>>) \o MinBody(M, HdrLen(M) + 1)

Route(entry, inp) ==
  LET fam == IF entry = "gmm" THEN "GMM" ELSE IF entry = "gsm" THEN "GSM"
             ELSE IF Len(inp) = 0 THEN "none" ELSE IF inp[1] = EpdGmm THEN "GMM" ELSE IF inp[1] = EpdGsm THEN "GSM" ELSE "none"
  IN IF fam = "GMM" /\ Len(inp) >= 3 THEN GmmByType(inp[3])
     ELSE IF fam = "GSM" /\ Len(inp) >= 4 THEN GsmByType(inp[4]) ELSE {}
\* header view the library keeps next to the body: the first 3 (5GMM) / 4 (5GSM) octets
HeaderView(M, inp) == SubSeq(inp, 1, HdrLen(M))

\* encode dispatch: family pointer present?, message type in the header view, which body is populated
EncRoute(fam, mt) == IF fam = "gmm" THEN GmmByType(mt) ELSE IF fam = "gsm" THEN GsmByType(mt) ELSE {}
================================================================================
