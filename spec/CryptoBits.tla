---------------------------- MODULE CryptoBits ----------------------------
(* Octet-string helpers shared by the cipher specifications.  An octet string is a tuple of
   0..255; bit 0 of a string is the most significant bit of its first octet (the bit order of
   TS 33.401 Annex B and of the ETSI/SAGE documents).  32-bit quantities are 4 octets, most
   significant first, because TLC integers are 32-bit signed. *)
EXTENDS Integers, Sequences, Bitwise

Octet == 0..255
IsOctets(s, n) == Len(s) = n /\ \A i \in 1..n : s[i] \in Octet
XorS(a, b) == LET n == Len(a) IN SubSeq([i \in 1..n |-> a[i] ^^ b[i]], 1, n)
Zeros(n) == SubSeq([i \in 1..n |-> 0], 1, n)
NBytes(nbits) == (nbits + 7) \div 8
\* the first nbits bits of b as NBytes(nbits) octets, the unused low bits of the last octet cleared
MaskBits(b, nbits) ==
  LET n == NBytes(nbits)  r == nbits % 8  p == 2^(8 - r) IN
  SubSeq([i \in 1..n |-> IF i = n /\ r # 0 THEN (b[i] \div p) * p ELSE b[i]], 1, n)
BitOf(v, i) == (v[(i \div 8) + 1] \div (2^(7 - (i % 8)))) % 2
\* word i.. of an octet string
W(b, i) == <<b[i], b[i+1], b[i+2], b[i+3]>>
\* 4-octet big-endian representation of 0 <= x < 2^31
U32(x) == << x \div 16777216, (x \div 65536) % 256, (x \div 256) % 256, x % 256 >>
\* concatenation of a sequence of 4-octet words
FlatW(ws) == LET n == Len(ws) IN SubSeq([i \in 1..(4*n) |-> ws[((i-1) \div 4) + 1][((i-1) % 4) + 1]], 1, 4*n)
\* <<1, ..., n>>: iteration domain for FoldLeft (Java-implemented, iterative: no deep recursion on long inputs)
Idx(n) == SubSeq([i \in 1..n |-> i], 1, n)
===========================================================================
