----------------------------- MODULE SecurityApi -----------------------------
(* The NAS security API (security.NASEncrypt / security.NASMacCalculate) as a state machine over payload
   cells, written from the statement of C08 and TS 33.501 Annex D / TS 33.401 Annex B:

     Encrypt(c, alg, key, count, bearer, dir)   in place on payload cell c
        guards: bearer <= 31, direction <= 1, payload not nil, alg in 0..3; otherwise error, nothing changes
        alg = 0 (NULL): payload unchanged
        alg in 1..3:   payload' = payload xor KS(alg, key, count, bearer, dir)[1..Len(payload)]
     Mac(c, alg, key, count, bearer, dir)       over the message held in cell c
        same guards; result of exactly 4 octets, all zero for alg = 0; the message and the key are not modified;
        the result is a FRESH cell owned by the caller (`res`): the caller may write into it (Scribble) or drop it
        (Release); no later call reads or changes it

   The keystream KS is UNINTERPRETED: nothing is assumed about it except that it is a function of the five
   parameters only (stream cipher in additive mode).  TLC realises "for every function" by choosing the
   stream of a parameter point nondeterministically the first time the point is used and remembering it
   (`ks`); at most MaxPoints points per behaviour.  Ghost variables: `plain` (cell contents when loaded) and
   `odd` (points applied an odd number of times since) state the laws as invariants:
     Involution, LengthPreserved, PrefixStable, KsIndependent, Accounting;  as action properties:
     ErrUntouched, GuardExact, NullIdentity, MacShape, MacPure, MacFresh (calls never change a result cell the caller
     holds; with MacShape: the NULL MAC is all-zero whatever the caller wrote into earlier results), ResultOwned.
   The concrete keystreams are the business of C06; this module is about the API. *)
EXTENDS Integers, Sequences, FiniteSets, Bitwise, TLC
CONSTANTS Cells,        \* payload buffers
          Algs,         \* algorithm identities tried (valid 0..3 and others)
          Keys, Counts, \* opaque key / COUNT values
          Bearers, Dirs,\* bearer and direction values tried (valid 0..31, 0..1 and others)
          Sym,          \* payload alphabet, closed under xor (0..1 in the model, octets in the traces)
          MaxLen,       \* longest payload
          Pats,         \* base payloads of length MaxLen; the payload universe is every prefix of a base payload
          MacVals,      \* possible MAC results of the non-NULL algorithms (4-tuples)
          MaxPoints,
          MaxRes,       \* number of result cells (returned MACs) the caller keeps hold of
          MacTop,       \* largest MAC symbol (1 in the model, 255 in the traces): writing = inverting every symbol
          Nil,          \* the nil payload (a model value: different from every sequence)
          WithNil       \* whether nil payloads are loaded
VARIABLES cell, plain, odd, ks, last, res
vars == <<cell, plain, odd, ks, last, res>>
Payloads == {SubSeq(p, 1, n) : p \in Pats, n \in 0..MaxLen}
\* ----- the definitions shared with the trace specification
GuardOK(alg, bearer, dir, isNil) == bearer <= 31 /\ dir <= 1 /\ ~isNil /\ alg \in 0..3
XorSeq(a, b) == LET n == Len(a) IN SubSeq([i \in 1..n |-> a[i] ^^ b[i]], 1, n)         \* b at least as long as a
Prefix(a, n) == SubSeq(a, 1, n)
IsPrefixOf(a, b) == Len(a) <= Len(b) /\ Prefix(b, Len(a)) = a
ZeroMac == <<0, 0, 0, 0>>
InvT(m) == LET n == Len(m) IN SubSeq([i \in 1..n |-> MacTop - m[i]], 1, n)       \* what the caller's write leaves in a result cell
Result(m) == [val |-> m, given |-> m, dirty |-> FALSE]
\* -----
Point == [alg : Algs \cap (1..3), key : Keys, cnt : Counts, bearer : Bearers \cap (0..31), dir : Dirs \cap (0..1)]
Streams == [1..MaxLen -> Sym]
\* `last` describes the call just made
NoCall == [op |-> "none", c |-> 0, alg |-> 0, key |-> 0, cnt |-> 0, bearer |-> 0, dir |-> 0, err |-> FALSE, mac |-> <<>>]
Init == /\ cell = [c \in Cells |-> Nil] /\ plain = [c \in Cells |-> Nil] /\ odd = [c \in Cells |-> {}]
        /\ ks = <<>> /\ last = NoCall /\ res = <<>>
Known == DOMAIN ks
Load(c, p) == /\ cell' = [cell EXCEPT ![c] = p] /\ plain' = [plain EXCEPT ![c] = p] /\ odd' = [odd EXCEPT ![c] = {}]
              /\ UNCHANGED <<ks, res>>
              /\ last' = [NoCall EXCEPT !.op = "Load", !.c = c]
Call(op, c, alg, key, cnt, bearer, dir, err, mac) ==
  [op |-> op, c |-> c, alg |-> alg, key |-> key, cnt |-> cnt, bearer |-> bearer, dir |-> dir, err |-> err, mac |-> mac]
EncryptEffect(c, alg, key, cnt, bearer, dir) ==
  IF ~GuardOK(alg, bearer, dir, cell[c] = Nil)
  THEN /\ UNCHANGED <<cell, plain, odd, ks>>
       /\ last' = Call("Encrypt", c, alg, key, cnt, bearer, dir, TRUE, <<>>)
  ELSE IF alg = 0
  THEN /\ UNCHANGED <<cell, plain, odd, ks>>
       /\ last' = Call("Encrypt", c, alg, key, cnt, bearer, dir, FALSE, <<>>)
  ELSE LET q == [alg |-> alg, key |-> key, cnt |-> cnt, bearer |-> bearer, dir |-> dir] IN
       /\ q \in Known \/ Cardinality(Known) < MaxPoints
       /\ \E s \in (IF q \in Known THEN {ks[q]} ELSE Streams) :
            /\ ks' = IF q \in Known THEN ks ELSE [p \in Known \cup {q} |-> IF p = q THEN s ELSE ks[p]]
            /\ cell' = [cell EXCEPT ![c] = XorSeq(cell[c], s)]
       /\ odd' = [odd EXCEPT ![c] = IF q \in @ THEN @ \ {q} ELSE @ \cup {q}]
       /\ UNCHANGED plain
       /\ last' = Call("Encrypt", c, alg, key, cnt, bearer, dir, FALSE, <<>>)
Encrypt(c, alg, key, cnt, bearer, dir) == EncryptEffect(c, alg, key, cnt, bearer, dir) /\ UNCHANGED res
\* the MAC is returned in a fresh cell; the caller keeps hold of up to MaxRes results
Mac(c, alg, key, cnt, bearer, dir) ==
  /\ UNCHANGED <<cell, plain, odd, ks>>
  /\ IF ~GuardOK(alg, bearer, dir, cell[c] = Nil)
     THEN last' = Call("Mac", c, alg, key, cnt, bearer, dir, TRUE, <<>>) /\ UNCHANGED res
     ELSE \E m \in (IF alg = 0 THEN {ZeroMac} ELSE MacVals) :
            /\ last' = Call("Mac", c, alg, key, cnt, bearer, dir, FALSE, m)
            /\ res' = IF Len(res) < MaxRes THEN Append(res, Result(m)) ELSE res
\* the caller writes into a result it holds / lets go of the oldest one
Scribble(i) == /\ res' = [res EXCEPT ![i] = [val |-> InvT(@.val), given |-> @.given, dirty |-> ~@.dirty]]
               /\ last' = [NoCall EXCEPT !.op = "Scribble"] /\ UNCHANGED <<cell, plain, odd, ks>>
Release == /\ res # <<>> /\ res' = Tail(res)
           /\ last' = [NoCall EXCEPT !.op = "Release"] /\ UNCHANGED <<cell, plain, odd, ks>>
Loadable == Payloads \cup (IF WithNil THEN {Nil} ELSE {})
Next == \/ \E c \in Cells :
             \/ \E p \in Loadable : Load(c, p)
             \/ \E alg \in Algs, key \in Keys, cnt \in Counts, bearer \in Bearers, dir \in Dirs :
                  Encrypt(c, alg, key, cnt, bearer, dir) \/ Mac(c, alg, key, cnt, bearer, dir)
        \/ \E i \in 1..Len(res) : Scribble(i)
        \/ Release
Spec == Init /\ [][Next]_vars
\* ---------------------------------------------------------------- laws
RECURSIVE XorAll(_,_)
XorAll(p, Q) == IF Q = {} THEN p ELSE LET q == CHOOSE x \in Q : TRUE IN XorAll(XorSeq(p, ks[q]), Q \ {q})
TypeOK == /\ \A c \in Cells : (cell[c] = Nil \/ cell[c] \in Seq(Sym)) /\ odd[c] \subseteq Known
          /\ Known \subseteq Point /\ Cardinality(Known) <= MaxPoints
Live(c) == cell[c] # Nil
Accounting == \A c \in Cells : (Live(c) <=> plain[c] # Nil) /\ (Live(c) => cell[c] = XorAll(plain[c], odd[c]))
LengthPreserved == \A c \in Cells : Live(c) => Len(cell[c]) = Len(plain[c])
Involution == \A c \in Cells : (Live(c) /\ odd[c] = {}) => cell[c] = plain[c]
PrefixStable == \A c, d \in Cells : (Live(c) /\ Live(d) /\ odd[c] = odd[d] /\ IsPrefixOf(plain[c], plain[d])) => IsPrefixOf(cell[c], cell[d])
KsIndependent == \A c, d \in Cells : (Live(c) /\ Live(d) /\ odd[c] = odd[d] /\ Len(plain[c]) = Len(plain[d]))
                                        => XorSeq(cell[c], plain[c]) = XorSeq(cell[d], plain[d])
IsCall(l) == l.op \in {"Encrypt", "Mac"}
ErrUntouched == [][(IsCall(last') /\ last'.err) => cell' = cell]_vars
GuardExact == [][IsCall(last') => (last'.err <=> ~GuardOK(last'.alg, last'.bearer, last'.dir, cell[last'.c] = Nil))]_vars
NullIdentity == [][(IsCall(last') /\ last'.alg = 0) => cell' = cell]_vars
MacShape == [][(last'.op = "Mac" /\ ~last'.err) => (Len(last'.mac) = 4 /\ (last'.alg = 0 => last'.mac = ZeroMac))]_vars
MacPure == [][last'.op = "Mac" => cell' = cell]_vars
\* results are fresh cells: no call changes a result the caller holds (a successful Mac may only add one); what a held cell
\* contains is what was returned, or what the caller wrote
MacFresh == [][IsCall(last') => (Len(res') >= Len(res) /\ SubSeq(res', 1, Len(res)) = res)]_vars
ResultOwned == \A i \in 1..Len(res) : res[i].val = (IF res[i].dirty THEN InvT(res[i].given) ELSE res[i].given)
==============================================================================
