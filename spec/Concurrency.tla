----------------------------- MODULE Concurrency -----------------------------
(* C19 - the library is safe for concurrent use on independent values.
   N callers run programs of library operations on their OWN values; one decoded message is shared and only
   read; the library's package-level state G (S-boxes, constant tables, logger entries) is read by every call.
   Call and Return are separate steps, so calls overlap in every possible way.  The library is modelled as it
   is meant to be: a call's result is a function of its arguments, the shared message and G, and no action
   writes G or the shared message.  A second, deliberately broken library (`Memo`: a package-level scratch
   cell written at Call and read at Return) is included to show that the properties discriminate: it violates
   ResultsSequential under interleaving although every single-threaded run is correct. *)
EXTENDS Integers, Sequences, FiniteSets, TLC
CONSTANTS Callers,      \* set of caller ids
          ProgLen,      \* operations per caller
          UseMemo       \* FALSE: the library as specified; TRUE: the broken variant
VARIABLES pc, inflight, results, G, shared, memo
vars == <<pc, inflight, results, G, shared, memo>>

Ops == {"decode", "encode", "cipher", "mac", "get", "read_shared"}
\* each caller's program and private arguments are derived from its id (distinct values per caller)
Arg(c, i) == c * 100 + i
OpOf(c, i) == CASE (c + i) % 6 = 0 -> "decode" [] (c + i) % 6 = 1 -> "encode" [] (c + i) % 6 = 2 -> "cipher"
                [] (c + i) % 6 = 3 -> "mac" [] (c + i) % 6 = 4 -> "get" [] OTHER -> "read_shared"
\* the library function: result depends on (operation, argument, globals, shared message) only
F(op, a, g, sh) == IF op = "read_shared" THEN <<op, sh>> ELSE <<op, (a * 7 + g) % 1000>>
SeqResults(c) == [i \in 1..ProgLen |-> F(OpOf(c, i), Arg(c, i), 42, 17)]

Init == /\ pc = [c \in Callers |-> 1] /\ inflight = [c \in Callers |-> 0]
        /\ results = [c \in Callers |-> <<>>] /\ G = 42 /\ shared = 17 /\ memo = 0
Call(c) == /\ pc[c] <= ProgLen /\ inflight[c] = 0
           /\ inflight' = [inflight EXCEPT ![c] = Arg(c, pc[c])]
           /\ memo' = IF UseMemo THEN Arg(c, pc[c]) ELSE memo          \* broken variant: argument parked in a global
           /\ UNCHANGED <<pc, results, G, shared>>
Return(c) == /\ inflight[c] # 0
             /\ LET a == IF UseMemo THEN memo ELSE inflight[c] IN      \* broken variant: reads the global back
                results' = [results EXCEPT ![c] = Append(@, F(OpOf(c, pc[c]), a, G, shared))]
             /\ inflight' = [inflight EXCEPT ![c] = 0]
             /\ pc' = [pc EXCEPT ![c] = @ + 1]
             /\ UNCHANGED <<G, shared, memo>>
Next == \E c \in Callers : Call(c) \/ Return(c)
Spec == Init /\ [][Next]_vars /\ WF_vars(Next)

GlobalsNeverWritten == [][G' = G /\ shared' = shared]_vars
ResultsSequential == \A c \in Callers : \A i \in 1..Len(results[c]) : results[c][i] = SeqResults(c)[i]
AllFinish == <>(\A c \in Callers : pc[c] = ProgLen + 1)
===============================================================================
