------------------------------- MODULE Qos -------------------------------
(* C15 - the readers of QoS rules and QoS flow descriptions as ONE small-step machine
   (kind = "rules" | "descs"):

     rules:  Rule -> Filter -> (Comp -> ... -> Filter)* -> Tail -> Rule -> ... -> Done | Err
     descs:  Desc -> Param* -> Desc -> ... -> Done | Err

   pos is the next octet to read; ruleEnd / filtEnd delimit the enclosing elements; nLeft counts
   the packet filters / parameters still announced by the header.
   An initial state is one input taken from the generator tree below (the case structure of the
   grammar): a marshalled value, each of its proper prefixes, the marshalled value with one
   identifier octet replaced by an unknown value, or with a count field enlarged.
   TLC checks (MC_C15 configurations): the measure 4*(Len+1-pos)+rank strictly decreases on every step (so the
   reader terminates on every input), the result equals the declarative QosGrammar!Parse*,
   Parse(Marshal(x)) = x, every proper prefix is an error or (at an element boundary) a prefix of
   x, and an unknown identifier is always the error "unknown". *)
EXTENDS QosGrammar, TLC, FiniteSets
CONSTANTS MaxComps,       \* longest component list enumerated over all 18 types
          MaxParams,      \* longest parameter list enumerated over all 7 kinds
          UnkComp,        \* unknown component type values used for replacement
          UnkParam        \* unknown parameter identifier values used for replacement
VARIABLES kind, src, mode, data, pos, phase, ruleEnd, filtEnd, nLeft, cur, curf, out, err
vars == <<kind, src, mode, data, pos, phase, ruleEnd, filtEnd, nLeft, cur, curf, out, err>>

\* ------------------------------------------------------------------ the generator tree
Variants == {"lo", "hi", "half", "mix"}
Val(mx, salt, var) == CASE var = "lo" -> 0 [] var = "hi" -> mx [] var = "half" -> (mx + 1) \div 2
                        [] OTHER -> (salt * 7919 + 12345) % (mx + 1)
Comp(t, var)  == [t |-> t, f |-> [k \in 1..Len(Layout(t)) |-> Val(FieldMax(t, k), t * 8 + k, var)]]
Param(i, var) == [id |-> i, f |-> [k \in 1..Len(PLayout(i)) |-> Val(Pow256(PLayout(i)[k]) - 1, i * 4 + k, var)]]
SeqsUpTo(S, n) == UNION {[1..m -> S] : m \in 0..n}

MkFilter(id, dir, cs) == [id |-> id, dir |-> dir, comps |-> cs]
MkRule(id, op, dqr, pfs, prec, seg, qfi) ==
  [id |-> id, op |-> op, dqr |-> dqr, prec |-> prec, seg |-> seg, qfi |-> qfi,
   filters |-> IF op = 5 THEN [k \in 1..Len(pfs) |-> MkFilter(pfs[k].id, 0, <<>>)] ELSE pfs]
\* family A: every component list (all 18 types), and every single component at its boundary values
CompLists == {[k \in 1..Len(ts) |-> Comp(ts[k], "mix")] : ts \in SeqsUpTo(CompTypes, MaxComps)}
             \cup {<<Comp(t, var)>> : t \in CompTypes, var \in Variants}
RulesA == {<<MkRule(1, 1, TRUE, <<MkFilter(1, 3, cs)>>, 10, FALSE, 5)>> : cs \in CompLists}
\* family B: all 6 operations x DQR x packet filter lists over representative filters
RepFilters == {MkFilter(0, 1, <<>>), MkFilter(15, 2, <<Comp(1, "mix")>>),
               MkFilter(7, 3, <<Comp(16, "mix"), Comp(80, "hi")>>), MkFilter(9, 0, <<Comp(128, "half"), Comp(130, "mix")>>)}
RulesB == {<<MkRule(2, op, dqr, pfs, 255, TRUE, 63)>> : op \in 1..6, dqr \in BOOLEAN, pfs \in SeqsUpTo(RepFilters, 2)}
\* family C: rule lists over representative rules (one per operation, extreme scalar fields)
RepRules == {MkRule(op, op, op % 2 = 0, <<MkFilter(op, op % 4, <<Comp(64, "mix")>>)>>, 40 + op, op > 3, op * 9) : op \in 1..6}
            \cup {MkRule(255, 1, TRUE, <<>>, 255, TRUE, 63), MkRule(0, 2, FALSE, <<>>, 0, FALSE, 0)}
RulesC == SeqsUpTo(RepRules, 2)
\* boundary counts: 15 packet filters; a packet filter whose contents are 255 octets
Many(n, x) == [k \in 1..n |-> x]
RulesBig == {<<MkRule(3, 1, FALSE, [k \in 1..15 |-> MkFilter(k, 1 + (k % 3), <<Comp(48, "mix")>>)], 1, FALSE, 1)>>,
             <<MkRule(4, 5, FALSE, [k \in 1..15 |-> MkFilter(k, 0, <<>>)], 2, TRUE, 2)>>,
             <<MkRule(5, 4, TRUE, <<MkFilter(3, 3, Many(28, Comp(17, "mix")) \o <<Comp(135, "hi")>>)>>, 3, FALSE, 3)>>}
RuleCases(big) == RulesA \cup RulesB \cup RulesC \cup (IF big THEN RulesBig ELSE {})

MkDesc(qfi, op, ps) == [qfi |-> qfi, op |-> op, params |-> ps]
ParamLists == {[k \in 1..Len(is) |-> Param(is[k], "mix")] : is \in SeqsUpTo(ParamIds, MaxParams)}
              \cup {<<Param(i, var)>> : i \in ParamIds, var \in Variants}
DescsP == {<<MkDesc(9, 1, ps)>> : ps \in ParamLists}
RepDescs == {MkDesc(q, op, ps) : q \in {0, 63}, op \in 1..3, ps \in {<<>>, <<Param(1, "mix")>>, <<Param(2, "hi"), Param(6, "half"), Param(7, "lo")>>}}
DescsD == SeqsUpTo(RepDescs, 2)
DescsBig == {<<MkDesc(33, 3, [k \in 1..63 |-> Param(1 + (k % 7), "mix")])>>}
DescCases(big) == DescsP \cup DescsD \cup (IF big THEN DescsBig ELSE {})

MarshalOf(k, x) == IF k = "rules" THEN MarshalRules(x) ELSE MarshalDescs(x)
ParseOf(k, d)   == IF k = "rules" THEN ParseRules(d) ELSE ParseDescs(d)
IdPos(k, x)     == IF k = "rules" THEN RuleCompPos(x, 1) ELSE DescParamPos(x, 1)
CntPos(k, x)    == IF k = "rules" THEN RuleHdrPos(x, 1) ELSE DescCntPos(x, 1)
Unk(k)          == IF k = "rules" THEN UnkComp ELSE UnkParam
CntMask(k)      == IF k = "rules" THEN 16 ELSE 64
\* a count field enlarged: +1, and the maximum
CntMuts(k, d, p) == LET m == CntMask(k)
                        c == d[p] % m IN
                    (IF c + 1 < m THEN {<<p, d[p] + 1>>} ELSE {}) \cup (IF c < m - 1 THEN {<<p, d[p] - c + m - 1>>} ELSE {})
\* all single-octet replacements tried on a marshalled value
Muts(k, x) == LET d == MarshalOf(k, x) IN
              {<<p, u, "unk">> : p \in IdPos(k, x), u \in Unk(k)} \cup
              {<<pv[1], pv[2], "cnt">> : pv \in UNION {CntMuts(k, d, p) : p \in CntPos(k, x)}}

\* ------------------------------------------------------------------ the machine
NoRule == [id |-> 0, op |-> 0, dqr |-> FALSE, filters |-> <<>>, prec |-> 0, seg |-> FALSE, qfi |-> 0]
NoFilter == [id |-> 0, dir |-> 0, comps |-> <<>>]
Fresh == /\ pos = 1 /\ ruleEnd = 0 /\ filtEnd = 0 /\ nLeft = 0
         /\ cur = NoRule /\ curf = NoFilter /\ out = <<>> /\ err = ""
         /\ phase = IF kind = "rules" THEN "Rule" ELSE "Desc"
Inputs(Cases(_), AllModes) ==
  /\ kind \in {"rules", "descs"}
  /\ src \in Cases(kind)
  /\ LET m == MarshalOf(kind, src) IN
     \/ mode = "whole" /\ data = m
     \/ AllModes /\ mode = "cut" /\ \E n \in 0..(Len(m) - 1) : data = SubSeq(m, 1, n)
     \/ AllModes /\ \E mu \in Muts(kind, src) : mode = mu[3] /\ data = Replace(m, mu[1], mu[2])
  /\ Fresh
AllCases(k) == IF k = "rules" THEN RuleCases(TRUE) ELSE DescCases(TRUE)
Init == Inputs(AllCases, TRUE)

Final == {"Done", "Err"}
Fail(e) == /\ phase' = "Err" /\ err' = e
           /\ UNCHANGED <<pos, ruleEnd, filtEnd, nLeft, cur, curf, out>>
N == Len(data)

StepRule == /\ phase = "Rule"
            /\ IF pos > N THEN phase' = "Done" /\ UNCHANGED <<pos, ruleEnd, filtEnd, nLeft, cur, curf, out, err>>
               ELSE IF pos + 2 > N THEN Fail("truncated")
               ELSE LET L == data[pos + 1] * 256 + data[pos + 2] IN
                    IF pos + 2 + L > N THEN Fail("truncated")
                    ELSE IF L < 3 THEN Fail("length")
                    ELSE LET h == data[pos + 3] IN
                         /\ cur' = [NoRule EXCEPT !.id = data[pos], !.op = h \div 32, !.dqr = ((h \div 16) % 2 = 1)]
                         /\ nLeft' = h % 16 /\ ruleEnd' = pos + 2 + L /\ pos' = pos + 4 /\ phase' = "Filter"
                         /\ UNCHANGED <<filtEnd, curf, out, err>>
StepFilter == /\ phase = "Filter"
              /\ IF nLeft = 0 THEN phase' = "Tail" /\ UNCHANGED <<pos, ruleEnd, filtEnd, nLeft, cur, curf, out, err>>
                 ELSE IF cur.op = 5 THEN
                      IF pos > ruleEnd - 2 THEN Fail("truncated")
                      ELSE /\ cur' = [cur EXCEPT !.filters = Append(@, [id |-> data[pos] % 16, dir |-> 0, comps |-> <<>>])]
                           /\ pos' = pos + 1 /\ nLeft' = nLeft - 1
                           /\ UNCHANGED <<phase, ruleEnd, filtEnd, curf, out, err>>
                 ELSE IF pos + 1 > ruleEnd - 2 THEN Fail("truncated")
                 ELSE IF pos + 1 + data[pos + 1] > ruleEnd - 2 THEN Fail("truncated")
                 ELSE /\ curf' = [id |-> data[pos] % 16, dir |-> (data[pos] \div 16) % 4, comps |-> <<>>]
                      /\ filtEnd' = pos + 1 + data[pos + 1] /\ pos' = pos + 2 /\ phase' = "Comp"
                      /\ UNCHANGED <<ruleEnd, nLeft, cur, out, err>>
StepComp == /\ phase = "Comp"
            /\ IF pos > filtEnd
               THEN /\ cur' = [cur EXCEPT !.filters = Append(@, curf)] /\ nLeft' = nLeft - 1 /\ phase' = "Filter"
                    /\ UNCHANGED <<pos, ruleEnd, filtEnd, curf, out, err>>
               ELSE IF data[pos] \notin CompTypes THEN Fail("unknown")
               ELSE LET s == Sum(Layout(data[pos])) IN
                    IF pos + s > filtEnd THEN Fail("truncated")
                    ELSE /\ curf' = [curf EXCEPT !.comps = Append(@, [t |-> data[pos], f |-> DecFields(data, pos + 1, Layout(data[pos]))])]
                         /\ pos' = pos + 1 + s
                         /\ UNCHANGED <<phase, ruleEnd, filtEnd, nLeft, cur, out, err>>
StepTail == /\ phase = "Tail"
            /\ IF pos # ruleEnd - 1 THEN Fail("length")
               ELSE /\ out' = Append(out, [cur EXCEPT !.prec = data[pos], !.seg = ((data[pos + 1] \div 64) % 2 = 1), !.qfi = data[pos + 1] % 64])
                    /\ pos' = pos + 2 /\ phase' = "Rule"
                    /\ UNCHANGED <<ruleEnd, filtEnd, nLeft, cur, curf, err>>
StepDesc == /\ phase = "Desc"
            /\ IF pos > N THEN phase' = "Done" /\ UNCHANGED <<pos, ruleEnd, filtEnd, nLeft, cur, curf, out, err>>
               ELSE IF pos + 2 > N THEN Fail("truncated")
               ELSE /\ cur' = [qfi |-> data[pos] % 64, op |-> data[pos + 1] \div 32, params |-> <<>>]
                    /\ nLeft' = data[pos + 2] % 64 /\ pos' = pos + 3 /\ phase' = "Param"
                    /\ UNCHANGED <<ruleEnd, filtEnd, curf, out, err>>
StepParam == /\ phase = "Param"
             /\ IF nLeft = 0 THEN /\ out' = Append(out, cur) /\ phase' = "Desc"
                                  /\ UNCHANGED <<pos, ruleEnd, filtEnd, nLeft, cur, curf, err>>
                ELSE IF pos + 1 > N THEN Fail("truncated")
                ELSE IF data[pos] \notin ParamIds THEN Fail("unknown")
                ELSE IF data[pos + 1] # Sum(PLayout(data[pos])) THEN Fail("length")
                ELSE IF pos + 1 + data[pos + 1] > N THEN Fail("truncated")
                ELSE /\ cur' = [cur EXCEPT !.params = Append(@, [id |-> data[pos], f |-> DecFields(data, pos + 2, PLayout(data[pos]))])]
                     /\ pos' = pos + 2 + data[pos + 1] /\ nLeft' = nLeft - 1
                     /\ UNCHANGED <<phase, ruleEnd, filtEnd, curf, out, err>>
Halt == phase \in Final /\ UNCHANGED vars      \* final states stutter: TLC's deadlock check = never stuck before the end
Step == StepRule \/ StepFilter \/ StepComp \/ StepTail \/ StepDesc \/ StepParam
Next == (Step /\ UNCHANGED <<kind, src, mode, data>>) \/ Halt
Spec == Init /\ [][Next]_vars /\ WF_vars(Next)

\* ------------------------------------------------------------------ properties
Rank == CASE phase = "Comp" -> 3 [] phase = "Filter" -> 2 [] phase \in {"Tail", "Param"} -> 1 [] phase \in {"Rule", "Desc"} -> 0 [] OTHER -> -1
Measure == IF phase \in Final THEN -1 ELSE 4 * (N + 1 - pos) + Rank
MeasureDecreases == [][Measure' < Measure]_vars
MeasureBounded == Measure >= -1 /\ pos <= N + 1
Terminates == <>(phase \in Final)

Result == [err |-> err, val |-> IF err = "" THEN out ELSE <<>>]
Oracle == LET r == ParseOf(kind, data) IN [err |-> r.err, val |-> IF r.err = "" THEN r.val ELSE <<>>]
AgreesWithGrammar == phase \in Final => Result = Oracle
RoundTrip == (phase \in Final /\ mode = "whole") => (phase = "Done" /\ out = src)
WellFormedCases == IF kind = "rules" THEN WFRules(src) ELSE WFDescs(src)
\* a proper prefix: an error, or - exactly at an element boundary - the elements before it
Boundary == \E k \in 0..Len(src) : data = MarshalOf(kind, SubSeq(src, 1, k))
PrefixLaw == (phase \in Final /\ mode = "cut") =>
               IF Boundary THEN phase = "Done" /\ IsPrefix(out, src) /\ Len(out) < Len(src) ELSE err = "truncated"
UnknownIsError == (phase \in Final /\ mode = "unk") => err = "unknown"
\* canonical form: what was parsed without error marshals back to the input iff no spare bit is set;
\* in particular for every generated whole value
Canonical == (phase = "Done" /\ mode = "whole") => MarshalOf(kind, out) = data
TypeOK == /\ phase \in {"Rule", "Filter", "Comp", "Tail", "Desc", "Param"} \cup Final
          /\ err \in {"", "truncated", "unknown", "length"}
          /\ (phase = "Err") = (err # "")
=========================================================================
