--------------------------- MODULE UePolicyHistory ---------------------------
(* C18 - histories on ONE live structure: it is encoded, grows by a fresh item (a part appended to
   an instruction, an instruction to a sublist, a sublist to the list; a result to a subresult, a
   subresult to the result list), is encoded again; received octets are decoded and the decoded
   structure is grown and re-encoded.  Whatever was done before, an encoding is Marshal of the
   CURRENT value: there is no state besides the value (no remembered length).
     Encode   wire' = Marshal(val)
     Grow     val' = UeGrow(val, level, s, i, item)
     Adopt    val' = the value parsed from the last wire (the live structure is replaced by the
              decoded one)
   Checked: WireDecodesToValue (after Encode the wire parses to exactly the current value, every
   length as computed from the content), AdoptKeepsValue, and GrowthLaw (a fresh item of z octets
   makes the encoding and every enclosing length z larger and leaves every other element alone).
   `hist` records the operations; the generator prints it for replay on the real code. *)
EXTENDS UePolicy
CONSTANTS MaxGrow, Rich
VARIABLES kind, val0, val, hist, grows, adopts, lastop, wire, wval
hvars == << kind, val0, val, hist, grows, adopts, lastop, wire, wval >>

Part(ty, c) == [ty |-> ty, c |-> c]
Ins(u, ps) == [upsc |-> u, parts |-> ps]
Sub(mcc, mnc, is) == [mcc |-> mcc, mnc |-> mnc, ins |-> is]
Res(u, o) == [upsc |-> u, ord |-> o, cause |-> UeCauseUnspecified]
SubRes(mcc, mnc, rs) == [mcc |-> mcc, mnc |-> mnc, rs |-> rs]

ListInits ==
  { << >>,
    << Sub(208, 93, << >>) >>,
    << Sub(208, 93, << Ins(258, << >>) >>) >>,
    << Sub(208, 93, << Ins(258, << Part(1, << 170, 187 >>) >>) >>) >>,
    << Sub(310, 410, << Ins(1, << Part(1, << >>), Part(2, << 5 >>) >>), Ins(2, << >>) >>) >>,
    << Sub(208, 93, << Ins(10, << Part(1, << 1 >>) >>), Ins(11, << Part(2, << 2 >>) >>) >>),
       Sub(999, 10, << Ins(20, << Part(3, << 3 >>) >>), Ins(21, << Part(4, << >>) >>) >>) >> }
ResultInits ==
  { << >>,
    << SubRes(208, 93, << >>) >>,
    << SubRes(208, 93, << Res(258, 0) >>) >>,
    << SubRes(310, 410, << Res(1, 0), Res(2, 1) >>), SubRes(999, 10, << Res(3, 0) >>) >> }

\* fresh items; the k-th growth step uses other values than the one before
Items(level, k) ==
  CASE level = "part" -> {Part(2, << 1, 2, 3 >>)} \cup (IF Rich THEN {Part(4, << >>)} ELSE {})
    [] level = "ins" -> {Ins(700 + k, << Part(3, << 9 >>) >>)} \cup (IF Rich THEN {Ins(800 + k, << >>)} ELSE {})
    [] level = "sub" -> {Sub(460, 11 + k, << Ins(900 + k, << Part(1, << 7, 7 >>) >>) >>)} \cup (IF Rich THEN {Sub(100, 999, << >>)} ELSE {})
    [] level = "res" -> {Res(500 + k, k)}
    [] level = "sres" -> {SubRes(460, 11 + k, << Res(600 + k, 0) >>)} \cup (IF Rich THEN {SubRes(100, 999, << >>)} ELSE {})
\* first and last position
Ends(n) == IF n = 0 THEN {} ELSE {1, n}

HInit == /\ \/ (kind = "list" /\ val0 \in ListInits)
            \/ (kind = "result" /\ val0 \in ResultInits)
         /\ val = val0 /\ hist = << >> /\ grows = 0 /\ adopts = 0 /\ lastop = "new" /\ wire = << >> /\ wval = << >>

Encode == /\ lastop \in {"new", "grow", "adopt"}
          /\ wire' = UeMarshalApi(kind, val) /\ wval' = val
          /\ hist' = Append(hist, [op |-> "enc"]) /\ lastop' = "enc"
          /\ UNCHANGED << kind, val0, val, grows, adopts >>
Adopt == /\ lastop = "enc" /\ adopts <= grows /\ grows < MaxGrow
         /\ val' = IF kind = "list" THEN UeApiOfSubs(UeParseSubs(wire).v) ELSE UeApiOfSrs(UeParseSubRess(wire).v)
         /\ hist' = Append(hist, [op |-> "adopt"]) /\ lastop' = "adopt" /\ adopts' = adopts + 1
         /\ UNCHANGED << kind, val0, grows, wire, wval >>
GrowBy(level, s, i, item) ==
         /\ grows < MaxGrow /\ UeGrowOK(val, level, s, i)
         /\ val' = UeGrow(val, level, s, i, item)
         /\ hist' = Append(hist, [op |-> "grow", level |-> level, s |-> s, i |-> i, item |-> item])
         /\ lastop' = "grow" /\ grows' = grows + 1
         /\ UNCHANGED << kind, val0, adopts, wire, wval >>
Grow == \E level \in UeGrowLevels(kind) : \E item \in Items(level, grows) :
          CASE level \in {"sub", "sres"} -> GrowBy(level, 0, 0, item)
            [] level \in {"ins", "res"} -> \E s \in Ends(Len(val)) : GrowBy(level, s, 0, item)
            [] level = "part" -> \E s \in Ends(Len(val)) : \E i \in Ends(Len(val[s].ins)) : GrowBy(level, s, i, item)
HNext == Encode \/ Adopt \/ Grow
HSpec == HInit /\ [][HNext]_hvars

\* ---- laws
SpecVal(v) == IF kind = "list" THEN UeSubsOfApi(v) ELSE UeSrsOfApi(v)
ParseWire == IF kind = "list" THEN UeParseSubs(wire) ELSE UeParseSubRess(wire)
ProjOf(v) == IF kind = "list" THEN UeProjSubs(UeSubsOfApi(v)) ELSE UeProjSubRess(UeSrsOfApi(v))
WireDecodesToValue == lastop = "enc" => (ParseWire = UeOk(SpecVal(val)) /\ wval = val)
AdoptKeepsValue == lastop = "adopt" => val = wval
GrowthLaw ==
  [][lastop' = "grow" =>
       LET g == hist'[Len(hist')]
           z == UeItemSize(g.level, g.item)
           p == ProjOf(val)
           q == ProjOf(val') IN
       /\ Len(UeMarshalApi(kind, val')) = Len(UeMarshalApi(kind, val)) + z
       /\ IF g.level \in {"sub", "sres"} THEN SubSeq(q, 1, Len(p)) = p /\ q[Len(q)].len = z - 2
          ELSE /\ Len(q) = Len(p) /\ q[g.s].len = p[g.s].len + z
               /\ \A t \in 1..Len(p) : t # g.s => q[t] = p[t]
               /\ g.level = "part" =>
                    /\ q[g.s].ins[g.i].len = p[g.s].ins[g.i].len + z
                    /\ \A j \in 1..Len(p[g.s].ins) : j # g.i => q[g.s].ins[j] = p[g.s].ins[j]]_hvars
=============================================================================
