--------------------------- MODULE ReceivedMessage ---------------------------
(* X03 - a received message, end to end (DESIGN.md section 13 item 6).

   A network function that receives a 5GS NAS message does two things in one go: it decodes the octets
   (C01-C05, C10: NasCodec!DecodePlain) and then hands the decoded elements to the converters and getters
   (C09, C12-C17, X02).  This module is the COMPOSITION:  for an octet string b

        Received(b) == LET m == DecodePlain(b) IN  the record of what the receiver reads,

   each reading defined by applying the operators of the existing specification modules (Identity, AreaLists,
   Psi, PcoGrammar, QosGrammar, TimersRatesNames, MiscConvert, IeLayout) to the contents of the decoded
   element.  Nothing here is written from the Go code; the only new facts are the binding table RxBound
   (which element of which message is read by which reader) and, per reader, which existing operator applies.

   A READING is a record  [n slot name, a aspect, b bound to a library call?, st status, v value]:
     st = "absent"  the element is not in the message (v = <<>>)
          "val"     the underlying properties fix the value v the receiver must read
          "err"     the underlying properties demand that the converter reports an error
          "valerr"  either an error or exactly the value v
          "pfx"     the delivered list must be a prefix of v, with or without an error (inexact PCO list)
          "open"    the contents are outside the domain on which the underlying properties fix the result
                    (malformed identity, unknown identity type, ...): no verdict on the value
   b = FALSE marks readings for which the library has no decoder (what a UE reads: TAI list, network name,
   timer seconds, ...): they are part of Received, are model-checked in stage A and are bound to the real
   ENCODERS by the "Built" events of the trace specification.
   Texts are sequences of code points; enumerated names (PDU session type) are strings. *)
EXTENDS NasCodec, TLC
AL == INSTANCE AreaLists                \* extends Identity: PLMN, SUCI, GUTI, PEI, S-TMSI, NSSAI, TAI lists, LADN
TR == INSTANCE TimersRatesNames
PG == INSTANCE PcoGrammar
QG == INSTANCE QosGrammar
MV == INSTANCE MiscConvert
PS == INSTANCE Psi WITH v <- 0
IL == INSTANCE IeLayout                 \* documented bit fields (C09)

RxMin(x, y) == IF x < y THEN x ELSE y
\* contents of a present slot value sv of table slot s (array storage is padded to capacity: cut at the declared length)
RxC(s, sv) == IF s.lsz > 0 THEN SubSeq(sv.v, 1, RxMin(sv.len, Len(sv.v))) ELSE sv.v

RxVal(a, v)    == [a |-> a, b |-> TRUE, st |-> "val", v |-> v]
RxErr(a)       == [a |-> a, b |-> TRUE, st |-> "err", v |-> <<>>]
RxValErr(a, v) == [a |-> a, b |-> TRUE, st |-> "valerr", v |-> v]
RxPfx(a, v)    == [a |-> a, b |-> TRUE, st |-> "pfx", v |-> v]
RxOpen(a)      == [a |-> a, b |-> TRUE, st |-> "open", v |-> <<>>]
RxSem(r)       == [r EXCEPT !.b = FALSE]                 \* a reading without a library decoder
RxStatuses == {"absent", "val", "err", "valerr", "pfx", "open"}

\* ------------------------------------------------------------------ documented bit fields (IeFieldTable, C09)
RxTy(t) == IL!IeTypes[CHOOSE i \in 1..Len(IL!IeTypes) : IL!IeTypes[i].name = t]
RxFd(t, f) == LET ty == RxTy(t) IN ty.fields[CHOOSE i \in 1..Len(ty.fields) : ty.fields[i].name = f]
RxField(t, f, oct) == IL!GetField([iei |-> 0, len |-> 0, oct |-> oct], RxFd(t, f))
\* the getters a receiver calls on the small fixed elements, in this order
RxFieldNames(t) ==
  CASE t = "NgksiAndRegistrationType5GS" -> <<"TSC", "NasKeySetIdentifiler", "FOR", "RegistrationType5GS">>
    [] t = "NgksiAndDeregistrationType" -> <<"TSC", "NasKeySetIdentifiler", "SwitchOff", "ReRegistrationRequired", "AccessType">>
    [] t = "ServiceTypeAndNgksi" -> <<"ServiceTypeValue", "TSC", "NasKeySetIdentifiler">>
    [] t = "SpareHalfOctetAndPayloadContainerType" -> <<"PayloadContainerType">>
    [] t = "PduSessionID2Value" -> <<"PduSessionID2Value">>
    [] t = "OldPDUSessionID" -> <<"OldPDUSessionID">>
    [] t = "RequestType" -> <<"RequestTypeValue">>
    [] t = "Cause5GMM" -> <<"CauseValue">>
    [] t = "PDUSessionID" -> <<"PDUSessionID">>
    [] t = "PDUSessionType" -> <<"PDUSessionTypeValue">>
    [] t = "SSCMode" -> <<"SSCMode">>
    [] t = "SelectedSSCModeAndSelectedPDUSessionType" -> <<"SSCMode", "PDUSessionType">>
    [] t = "IntegrityProtectionMaximumDataRate" -> <<"MaximumDataRatePerUEForUserPlaneIntegrityProtectionForUpLink",
                                                     "MaximumDataRatePerUEForUserPlaneIntegrityProtectionForDownLink">>
    [] t = "T3512Value" -> <<"Unit", "TimerValue">>
    [] t \in {"FullNameForNetwork", "ShortNameForNetwork"} -> <<"Ext", "CodingScheme", "AddCI", "NumberOfSpareBitsInLastOctet">>
    [] OTHER -> <<>>
RxFields(t, oct) == LET ns == RxFieldNames(t) IN [i \in 1..Len(ns) |-> RxField(t, ns[i], oct)]

\* ------------------------------------------------------------------ 5GS mobile identity (Identity.tla, C12; X02 for the 5G-S-TMSI text)
RxIdType(c) == IF Len(c) = 0 THEN 0 ELSE AL!IdentityType(c)
RxIdValid(c) ==
  LET k == RxIdType(c) IN
  CASE k = 1 -> AL!SuciFromWire(c).ok
    [] k = 2 -> AL!GutiFromWire(c).ok
    [] k \in {3, 5} -> AL!PeiFromWire(c).ok
    [] k = 4 -> AL!STmsiFromWire(c).ok
    [] OTHER -> FALSE
RxIdText(c) ==
  LET k == RxIdType(c) IN
  CASE k = 1 -> AL!SuciToText(AL!SuciFromWire(c).v)
    [] k = 2 -> AL!GutiToText(AL!GutiFromWire(c).v)
    [] k = 4 -> AL!STmsiToText(AL!STmsiFromWire(c).v)
    [] OTHER -> AL!PeiToText(AL!PeiFromWire(c).v)
\* the route of an AMF: type of identity from the first octet, then the converter of nasConvert for that type
RxConv(c) ==
  LET k == RxIdType(c)
      u == AL!SuciFromWire(c)
      g == AL!GutiFromWire(c)
      p == AL!PeiFromWire(c)
  IN CASE k = 1 /\ u.ok -> RxVal("conv", <<AL!SuciToText(u.v), IF u.v.fmt = 0 THEN AL!PlmnToText(u.v.plmn) ELSE <<>> >>)
       [] k = 2 /\ g.ok -> RxVal("conv", <<AL!GutiToText(g.v), AL!MccText(g.v.plmn), AL!MncText(g.v.plmn), AL!AmfToText(g.v.amf)>>)
       [] k \in {3, 5} /\ p.ok -> RxVal("conv", <<AL!PeiToText(p.v)>>)
       [] OTHER -> RxOpen("conv")
\* the getters of nasType.MobileIdentity5GS on the decoded element
RxId5gs(c) ==
  LET k == RxIdType(c)
      ok == RxIdValid(c)
      u == AL!SuciFromWire(c).v
      g == AL!GutiFromWire(c).v
  IN << IF ok THEN RxVal("type", AL!IdentityTypeName(k)) ELSE RxOpen("type"),
        IF ok /\ k # 4 THEN RxVal("id", <<RxIdText(c), AL!IdentityTypeName(k)>>) ELSE RxOpen("id"),
        IF ok /\ k = 2 THEN RxVal("plmn", AL!PlmnToText(g.plmn))
        ELSE IF ok /\ k = 1 /\ u.fmt = 0 THEN RxVal("plmn", AL!PlmnToText(u.plmn)) ELSE RxOpen("plmn"),
        IF ok /\ k = 4 THEN RxVal("stmsi", <<RxIdText(c), AL!IdentityTypeName(4)>>) ELSE RxOpen("stmsi"),
        RxConv(c) >>
RxIdPlain(c) == << RxConv(c) >>

\* 5G-GUTI element (11 octets): text through GutiToStringWithError, numbers through the bit-field getters
RxGuti(c) ==
  IF Len(c) # 11 THEN << RxOpen("text"), RxOpen("ids") >> ELSE
  LET g == AL!GutiFromWire(c) IN
  << IF g.ok THEN RxVal("text", <<AL!GutiToText(g.v), AL!MccText(g.v.plmn), AL!MncText(g.v.plmn), AL!AmfToText(g.v.amf)>>)
     ELSE RxOpen("text"),
     RxVal("ids", AL!AmfFromWire(SubSeq(c, 5, 7)) \o SubSeq(c, 8, 11)) >>
\* 5G-S-TMSI element (7 octets)
RxStmsi(c) ==
  IF Len(c) # 7 THEN << RxOpen("text"), RxOpen("ids") >> ELSE
  LET s == AL!STmsiFromWire(c).v
      t == <<MV!McTmsiText(c), MV!McTmsiTypeName>>
  IN << IF c[1] % 8 = 4 THEN RxVal("text", t) ELSE RxValErr("text", t),
        RxVal("ids", <<s.set, s.pointer>> \o s.tmsi) >>

\* ------------------------------------------------------------------ slices and areas (AreaLists.tla, C13)
RxMapOf(x) == [sst |-> x.sst, sd |-> AL!SdText(x.sd), h |-> Len(x.hsst),
               hsst |-> IF Len(x.hsst) = 1 THEN x.hsst[1] ELSE 0, hsd |-> AL!SdText(x.hsd)]
RxNssai(c) == LET d == AL!NssaiDec(c) IN
              << IF d.ok THEN RxVal("list", [i \in 1..Len(d.v) |-> RxMapOf(d.v[i])]) ELSE RxErr("list") >>
RxSnssai(c) == << IF Len(c) \in {1, 4}
                  THEN LET x == AL!SnssaiOfContents(c) IN RxVal("model", [sst |-> x.sst, sd |-> AL!SdText(x.sd)])
                  ELSE RxOpen("model") >>
RxLadnInd(c) == LET d == AL!LadnIndDec(c) IN << IF d.ok THEN RxVal("dnns", d.v) ELSE RxOpen("dnns") >>
RxTai(c) ==
  IF Len(c) # 6 THEN << RxOpen("plmn"), RxOpen("tac") >> ELSE
  LET p == AL!PlmnFromWire(SubSeq(c, 1, 3)) IN
  << IF p.ok THEN RxVal("plmn", AL!PlmnToText(p.v)) ELSE RxOpen("plmn"), RxVal("tac", SubSeq(c, 4, 6)) >>
\* what a UE reads (no decoder in the library): the raw contents through the getter + the specification's reading
RxTaiJ(t) == [mcc |-> AL!MccText(t.plmn), mnc |-> AL!MncText(t.plmn), tac |-> AL!HexText(t.tac)]
RxTais(ts) == [i \in 1..Len(ts) |-> RxTaiJ(ts[i])]
RxSemOf(a, d, v) == RxSem(IF d.ok THEN RxVal(a, v) ELSE RxErr(a))
RxTaiList(c) == LET d == AL!TaiListDec(c) IN << RxVal("raw", c), RxSemOf("list", d, RxTais(d.v)) >>
RxSal(c) == LET d == AL!SalDec(c) IN
            << RxVal("raw", c), RxSemOf("list", d, [na |-> d.v.na, tais |-> RxTais(d.v.tais),
                                                     whole |-> [i \in 1..Len(d.v.whole) |-> AL!PlmnToText(d.v.whole[i])]]) >>
RxLadnInfo(c) == LET d == AL!LadnInfoDec(c) IN
                 << RxVal("raw", c), RxSemOf("list", d, [i \in 1..Len(d.v) |-> [dnn |-> d.v[i].dnn, tais |-> RxTais(d.v[i].tais)]]) >>
RxRejNssai(c) == LET d == AL!RejDec(c) IN
                 << RxVal("raw", c), RxSemOf("list", d, [i \in 1..Len(d.v) |-> [sst |-> d.v[i].sst, sd |-> AL!SdText(d.v[i].sd), cause |-> d.v[i].cause]]) >>

\* ------------------------------------------------------------------ bitmaps (Psi.tla, C16; IeFieldTable, C09)
RxPsiNames == <<"PSI0", "PSI1", "PSI2", "PSI3", "PSI4", "PSI5", "PSI6", "PSI7",
                "PSI8", "PSI9", "PSI10", "PSI11", "PSI12", "PSI13", "PSI14", "PSI15">>
RxPsi(t, c) ==
  IF Len(c) < 2 THEN << RxOpen("bools"), RxOpen("bits") >> ELSE
  LET bm == PS!SeqOfBitmap(PS!BitmapOfOctets(SubSeq(c, 1, 2))) IN
  << RxVal("bools", [i \in 1..16 |-> IF bm[i] THEN 1 ELSE 0]),
     RxVal("bits", [i \in 1..16 |-> RxField(t, RxPsiNames[i], c)]) >>
\* UE security capability (TS 24.501 9.11.3.54): one octet of eight one-bit getters per algorithm family present
RxSecNames == << <<"EA0_5G", "EA1_128_5G", "EA2_128_5G", "EA3_128_5G", "EA4_5G", "EA5_5G", "EA6_5G", "EA7_5G">>,
                 <<"IA0_5G", "IA1_128_5G", "IA2_128_5G", "IA3_128_5G", "IA4_5G", "IA5_5G", "IA6_5G", "IA7_5G">>,
                 <<"EEA0", "EEA1_128", "EEA2_128", "EEA3_128", "EEA4", "EEA5", "EEA6", "EEA7">>,
                 <<"EIA0", "EIA1_128", "EIA2_128", "EIA3_128", "EIA4", "EIA5", "EIA6", "EIA7">> >>
RxSecCap(c) ==
  << RxVal("algs", [r \in 1..RxMin(Len(c), 4) |-> [j \in 1..8 |-> RxField("UESecurityCapability", RxSecNames[r][j], c)]]),
     RxOpen("conv") >>                \* UESecurityCapabilityToByteArray: no listed property fixes its value (C14: no panic)

\* ------------------------------------------------------------------ small fixed elements
RxFieldsOf(t, c) == << RxVal("fields", RxFields(t, c)) >>
RxPduName(x) == IF x \in MV!McPduAssigned THEN RxVal("name", MV!McPduName(x)) ELSE RxOpen("name")     \* unused / reserved values: X02
RxPduType(c) == << RxVal("fields", RxFields("PDUSessionType", c)), RxPduName(RxField("PDUSessionType", "PDUSessionTypeValue", c)) >>
RxSelected(c) == LET t == "SelectedSSCModeAndSelectedPDUSessionType" IN
                 << RxVal("fields", RxFields(t, c)), RxPduName(RxField(t, "PDUSessionType", c)) >>
RxT3512(c) == << RxVal("fields", RxFields("T3512Value", c)), RxSem(RxVal("seconds", TR!Timer3Decode(c[1]))) >>
RxDnn(c) == << IF MV!McDnnExactStd(c) THEN RxVal("text", MV!McJoin(MV!McDnnLabels(c, 1))) ELSE RxOpen("text") >>

\* ------------------------------------------------------------------ session management (PcoGrammar C16, QosGrammar C15, AMBR C17)
RxPco(c) == LET us == PG!StripAll(PG!Units(c)) IN << IF PG!Exact(c) THEN RxVal("units", us) ELSE RxPfx("units", us) >>
RxAmbr(c) == IF Len(c) # 6 THEN << RxOpen("raw"), RxSem(RxOpen("rates")) >>
             ELSE << RxVal("raw", c), RxSem(RxVal("rates", TR!AmbrDecode(c))) >>
RxQosRules(c) == LET r == QG!ParseRules(c) IN
                 << IF r.err = "unknown" THEN RxErr("rules")
                    ELSE IF r.err = "" /\ QG!WFRules(r.val) /\ QG!MarshalRules(r.val) = c THEN RxVal("rules", r.val)
                    ELSE RxOpen("rules") >>
RxQosDescs(c) == LET r == QG!ParseDescs(c) IN
                 << IF r.err = "unknown" THEN RxErr("descs")
                    ELSE IF r.err = "" /\ QG!WFDescs(r.val) /\ QG!MarshalDescs(r.val) = c THEN RxVal("descs", r.val)
                    ELSE RxOpen("descs") >>

\* ------------------------------------------------------------------ names and time (TimersRatesNames.tla, C17)
RxName(t, c) ==
  IF Len(c) = 0 THEN << RxOpen("fields"), RxOpen("text"), RxSem(RxOpen("name")) >> ELSE
  LET spare == c[1] % 8
      n == Len(c) - 1 IN
  << RxVal("fields", RxFields(t, c)), RxVal("text", Tail(c)),
     RxSem(IF (c[1] \div 16) % 8 = 0 /\ 8 * n - spare >= 0 THEN RxVal("name", TR!Unpack7(Tail(c), spare)) ELSE RxOpen("name")) >>
RxTz(c) == << IF TR!ZoneValid(c[1]) THEN RxVal("text", TR!ZoneText(TR!ZoneDecode(c[1]))) ELSE RxOpen("text") >>
RxDst(c) == << IF c[1] \in TR!DstRange THEN RxVal("text", TR!DstText(c[1])) ELSE RxOpen("text") >>
RxUt(c) ==
  << IF TR!StampWellFormed(c) /\ TR!ValidStamp(TR!StampDecode(c))
     THEN LET s == TR!StampDecode(c)
              i == TR!Instant(s)
          IN RxVal("time", <<s.y, s.mo, s.d, s.h, s.mi, s.s, s.q * 900, i[1], i[2]>>)
     ELSE RxOpen("time") >>

\* ------------------------------------------------------------------ payload container: the 5GSM message a NAS transport carries
\* inputs "built from known identifiers" (the table-driven parse never takes the SkipUnknown branch); as in TraceCodecLib
RECURSIVE RxKnownOnly(_, _, _)
RxKnownOnly(inp, pos, M) ==
  IF pos > Len(inp) THEN TRUE
  ELSE LET b == inp[pos]  ks == Match(M, TagOf(b)) IN
       IF ks = {} THEN FALSE
       ELSE LET s == M.opt[First(ks)] IN
            IF s.half THEN RxKnownOnly(inp, pos + 1, M)
            ELSE LET r == Body(inp, pos + 1, s, b) IN (~r.ok) \/ RxKnownOnly(inp, r.pos, M)
RxRoute(inp) == IF Len(inp) >= 3 /\ inp[1] = EpdGmm THEN GmmByType(inp[3])
                ELSE IF Len(inp) >= 4 /\ inp[1] = EpdGsm THEN GsmByType(inp[4]) ELSE {}
RxAllKnown(inp) == LET c == RxRoute(inp) IN
                   IF c = {} THEN TRUE
                   ELSE LET M == Msgs[CHOOSE i \in c : TRUE]  m == Mand(inp, 1, M, 1, <<>>) IN (~m.ok) \/ RxKnownOnly(inp, m.pos, M)
RxContainer(c) == LET r == DecodePlain(c) IN
                  << RxVal("raw", c),
                     IF RxAllKnown(c) THEN RxVal("inner", [ok |-> r.ok, msg |-> IF r.ok THEN r.msg ELSE ""]) ELSE RxOpen("inner") >>

\* ------------------------------------------------------------------ readers by kind
RxKinds == {"id5gs", "idplain", "guti", "stmsi", "nssai", "snssai", "ladnind", "tai", "tailist", "sal", "ladninfo", "rejnssai",
            "psi", "seccap", "fields", "pdutype", "selected", "t3512", "dnn", "pco", "ambr", "qosrules", "qosdescs",
            "name", "tz", "dst", "ut", "container"}
\* n = slot name (= name of the element type), c = contents
RxRead(kind, n, c) ==
  CASE kind = "id5gs" -> RxId5gs(c)       [] kind = "idplain" -> RxIdPlain(c)   [] kind = "guti" -> RxGuti(c)
    [] kind = "stmsi" -> RxStmsi(c)       [] kind = "nssai" -> RxNssai(c)       [] kind = "snssai" -> RxSnssai(c)
    [] kind = "ladnind" -> RxLadnInd(c)   [] kind = "tai" -> RxTai(c)           [] kind = "tailist" -> RxTaiList(c)
    [] kind = "sal" -> RxSal(c)           [] kind = "ladninfo" -> RxLadnInfo(c) [] kind = "rejnssai" -> RxRejNssai(c)
    [] kind = "psi" -> RxPsi(n, c)        [] kind = "seccap" -> RxSecCap(c)     [] kind = "fields" -> RxFieldsOf(n, c)
    [] kind = "pdutype" -> RxPduType(c)   [] kind = "selected" -> RxSelected(c) [] kind = "t3512" -> RxT3512(c)
    [] kind = "dnn" -> RxDnn(c)           [] kind = "pco" -> RxPco(c)           [] kind = "ambr" -> RxAmbr(c)
    [] kind = "qosrules" -> RxQosRules(c) [] kind = "qosdescs" -> RxQosDescs(c) [] kind = "name" -> RxName(n, c)
    [] kind = "tz" -> RxTz(c)             [] kind = "dst" -> RxDst(c)           [] kind = "ut" -> RxUt(c)
    [] kind = "container" -> RxContainer(c)
\* the aspects of a reader (names and bound flags), in order: what an absent element reads as
RxAspects(kind) ==
  CASE kind = "id5gs" -> <<"type", "id", "plmn", "stmsi", "conv">>
    [] kind = "idplain" -> <<"conv">>
    [] kind \in {"guti", "stmsi"} -> <<"text", "ids">>
    [] kind = "nssai" -> <<"list">>          [] kind = "snssai" -> <<"model">>       [] kind = "ladnind" -> <<"dnns">>
    [] kind = "tai" -> <<"plmn", "tac">>
    [] kind \in {"tailist", "sal", "ladninfo", "rejnssai"} -> <<"raw", "list">>
    [] kind = "psi" -> <<"bools", "bits">>   [] kind = "seccap" -> <<"algs", "conv">>
    [] kind = "fields" -> <<"fields">>       [] kind \in {"pdutype", "selected"} -> <<"fields", "name">>
    [] kind = "t3512" -> <<"fields", "seconds">>
    [] kind = "dnn" -> <<"text">>            [] kind = "pco" -> <<"units">>          [] kind = "ambr" -> <<"raw", "rates">>
    [] kind = "qosrules" -> <<"rules">>      [] kind = "qosdescs" -> <<"descs">>
    [] kind = "name" -> <<"fields", "text", "name">>
    [] kind \in {"tz", "dst"} -> <<"text">>  [] kind = "ut" -> <<"time">>
    [] kind = "container" -> <<"raw", "inner">>
RxSemAspects == {<<"tailist", "list">>, <<"sal", "list">>, <<"ladninfo", "list">>, <<"rejnssai", "list">>,
                 <<"t3512", "seconds">>, <<"ambr", "rates">>, <<"name", "name">>}
RxAbsent(kind) == LET as == RxAspects(kind) IN
                  [i \in 1..Len(as) |-> [a |-> as[i], b |-> <<kind, as[i]>> \notin RxSemAspects, st |-> "absent", v |-> <<>>]]

\* ------------------------------------------------------------------ the binding table: message, element, reader
RxB(m, s, r) == [m |-> m, s |-> s, r |-> r]
RxBound == <<
  RxB("RegistrationRequest", "NgksiAndRegistrationType5GS", "fields"), RxB("RegistrationRequest", "MobileIdentity5GS", "id5gs"),
  RxB("RegistrationRequest", "UESecurityCapability", "seccap"),        RxB("RegistrationRequest", "RequestedNSSAI", "nssai"),
  RxB("RegistrationRequest", "LastVisitedRegisteredTAI", "tai"),       RxB("RegistrationRequest", "UplinkDataStatus", "psi"),
  RxB("RegistrationRequest", "PDUSessionStatus", "psi"),               RxB("RegistrationRequest", "AdditionalGUTI", "guti"),
  RxB("RegistrationRequest", "AllowedPDUSessionStatus", "psi"),        RxB("RegistrationRequest", "LADNIndication", "ladnind"),
  RxB("ULNASTransport", "SpareHalfOctetAndPayloadContainerType", "fields"), RxB("ULNASTransport", "PayloadContainer", "container"),
  RxB("ULNASTransport", "PduSessionID2Value", "fields"),               RxB("ULNASTransport", "OldPDUSessionID", "fields"),
  RxB("ULNASTransport", "RequestType", "fields"),                      RxB("ULNASTransport", "SNSSAI", "snssai"),
  RxB("ULNASTransport", "DNN", "dnn"),
  RxB("DLNASTransport", "SpareHalfOctetAndPayloadContainerType", "fields"), RxB("DLNASTransport", "PayloadContainer", "container"),
  RxB("DLNASTransport", "PduSessionID2Value", "fields"),               RxB("DLNASTransport", "Cause5GMM", "fields"),
  RxB("ConfigurationUpdateCommand", "GUTI5G", "guti"),                 RxB("ConfigurationUpdateCommand", "TAIList", "tailist"),
  RxB("ConfigurationUpdateCommand", "AllowedNSSAI", "nssai"),          RxB("ConfigurationUpdateCommand", "ServiceAreaList", "sal"),
  RxB("ConfigurationUpdateCommand", "FullNameForNetwork", "name"),     RxB("ConfigurationUpdateCommand", "ShortNameForNetwork", "name"),
  RxB("ConfigurationUpdateCommand", "LocalTimeZone", "tz"),            RxB("ConfigurationUpdateCommand", "UniversalTimeAndLocalTimeZone", "ut"),
  RxB("ConfigurationUpdateCommand", "NetworkDaylightSavingTime", "dst"), RxB("ConfigurationUpdateCommand", "LADNInformation", "ladninfo"),
  RxB("ConfigurationUpdateCommand", "ConfiguredNSSAI", "nssai"),       RxB("ConfigurationUpdateCommand", "RejectedNSSAI", "rejnssai"),
  RxB("RegistrationAccept", "GUTI5G", "guti"),                         RxB("RegistrationAccept", "TAIList", "tailist"),
  RxB("RegistrationAccept", "AllowedNSSAI", "nssai"),                  RxB("RegistrationAccept", "RejectedNSSAI", "rejnssai"),
  RxB("RegistrationAccept", "ConfiguredNSSAI", "nssai"),               RxB("RegistrationAccept", "PDUSessionStatus", "psi"),
  RxB("RegistrationAccept", "PDUSessionReactivationResult", "psi"),    RxB("RegistrationAccept", "LADNInformation", "ladninfo"),
  RxB("RegistrationAccept", "ServiceAreaList", "sal"),                 RxB("RegistrationAccept", "T3512Value", "t3512"),
  RxB("PDUSessionEstablishmentRequest", "PDUSessionID", "fields"),
  RxB("PDUSessionEstablishmentRequest", "IntegrityProtectionMaximumDataRate", "fields"),
  RxB("PDUSessionEstablishmentRequest", "PDUSessionType", "pdutype"),  RxB("PDUSessionEstablishmentRequest", "SSCMode", "fields"),
  RxB("PDUSessionEstablishmentRequest", "ExtendedProtocolConfigurationOptions", "pco"),
  RxB("PDUSessionEstablishmentAccept", "PDUSessionID", "fields"),
  RxB("PDUSessionEstablishmentAccept", "SelectedSSCModeAndSelectedPDUSessionType", "selected"),
  RxB("PDUSessionEstablishmentAccept", "AuthorizedQosRules", "qosrules"), RxB("PDUSessionEstablishmentAccept", "SessionAMBR", "ambr"),
  RxB("PDUSessionEstablishmentAccept", "SNSSAI", "snssai"),
  RxB("PDUSessionEstablishmentAccept", "AuthorizedQosFlowDescriptions", "qosdescs"),
  RxB("PDUSessionEstablishmentAccept", "ExtendedProtocolConfigurationOptions", "pco"), RxB("PDUSessionEstablishmentAccept", "DNN", "dnn"),
  RxB("PDUSessionModificationCommand", "PDUSessionID", "fields"),      RxB("PDUSessionModificationCommand", "SessionAMBR", "ambr"),
  RxB("PDUSessionModificationCommand", "AuthorizedQosRules", "qosrules"),
  RxB("PDUSessionModificationCommand", "AuthorizedQosFlowDescriptions", "qosdescs"),
  RxB("PDUSessionModificationCommand", "ExtendedProtocolConfigurationOptions", "pco"),
  RxB("IdentityResponse", "MobileIdentity", "idplain"),
  RxB("ServiceRequest", "ServiceTypeAndNgksi", "fields"),              RxB("ServiceRequest", "TMSI5GS", "stmsi"),
  RxB("ServiceRequest", "UplinkDataStatus", "psi"),                    RxB("ServiceRequest", "PDUSessionStatus", "psi"),
  RxB("ServiceRequest", "AllowedPDUSessionStatus", "psi"),
  RxB("ServiceAccept", "PDUSessionStatus", "psi"),                     RxB("ServiceAccept", "PDUSessionReactivationResult", "psi"),
  RxB("DeregistrationRequestUEOriginatingDeregistration", "NgksiAndDeregistrationType", "fields"),
  RxB("DeregistrationRequestUEOriginatingDeregistration", "MobileIdentity5GS", "id5gs") >>
RxMsgNames == {RxBound[i].m : i \in 1..Len(RxBound)}
\* (TLCEval: the table is computed once; a function constructor alone is re-evaluated at every application)
RxRowsTab == TLCEval([name \in RxMsgNames |-> SelectSeq(RxBound, LAMBDA r : r.m = name)])
RxRows(name) == IF name \in RxMsgNames THEN RxRowsTab[name] ELSE <<>>

\* where a named slot of message table M lives: <<"mand" | "opt", index>>
RxSlotAt(M, n) == IF \E k \in 1..Len(M.mand) : M.mand[k].n = n
                  THEN <<"mand", CHOOSE k \in 1..Len(M.mand) : M.mand[k].n = n>>
                  ELSE <<"opt", CHOOSE k \in 1..Len(M.opt) : M.opt[k].n = n>>
\* every bound element exists in its message table (design-level sanity of the binding table)
RxBoundOK == \A i \in 1..Len(RxBound) :
               /\ \E j \in 1..Len(Msgs) : Msgs[j].name = RxBound[i].m
               /\ LET M == Msgs[MsgByName(RxBound[i].m)] IN
                  \/ \E k \in 1..Len(M.mand) : M.mand[k].n = RxBound[i].s
                  \/ \E k \in 1..Len(M.opt) : M.opt[k].n = RxBound[i].s
               /\ RxBound[i].r \in RxKinds
ASSUME RxBoundOK

RxTag(n, rs) == [i \in 1..Len(rs) |-> [n |-> n, a |-> rs[i].a, b |-> rs[i].b, st |-> rs[i].st, v |-> rs[i].v]]
RECURSIVE RxFlat(_)
RxFlat(ss) == IF Len(ss) = 0 THEN <<>> ELSE ss[1] \o RxFlat(Tail(ss))
\* the readings of ONE bound element of a decoded message d = [mand, opt] of table M
RxReadRow(M, d, row) ==
  LET at == RxSlotAt(M, row.s)
      s  == IF at[1] = "mand" THEN M.mand[at[2]] ELSE M.opt[at[2]]
      sv == IF at[1] = "mand" THEN d.mand[at[2]] ELSE d.opt[at[2]]
  IN RxTag(row.s, IF sv.p THEN RxRead(row.r, row.s, RxC(s, sv)) ELSE RxAbsent(row.r))
\* all readings of a decoded message, in binding-table order
RxFieldsOfMsg(name, d) ==
  LET M == Msgs[MsgByName(name)]
      rows == RxRows(name)
  IN RxFlat([i \in 1..Len(rows) |-> RxReadRow(M, d, rows[i])])

\* ------------------------------------------------------------------ THE composition
Received(b) ==
  LET r == DecodePlain(b) IN
  IF ~r.ok THEN [ok |-> FALSE, msg |-> "", f |-> <<>>]
  ELSE [ok |-> TRUE, msg |-> r.msg, f |-> RxFieldsOfMsg(r.msg, r)]
\* the same for a message body decoded directly (Decode<Msg>)
ReceivedAs(name, b) ==
  LET d == Decode(Msgs[MsgByName(name)], b) IN
  IF ~d.ok THEN [ok |-> FALSE, msg |-> "", f |-> <<>>]
  ELSE [ok |-> TRUE, msg |-> name, f |-> RxFieldsOfMsg(name, d)]
RxBoundOnly(f) == SelectSeq(f, LAMBDA x : x.b)

\* type of a result: every reading has a legal status, absent / error / open readings carry no value
RxReadingOK(x) == /\ x.st \in RxStatuses
                  /\ x.st \in {"absent", "err", "open"} => x.v = <<>>
                  /\ x.v = x.v                          \* (forces the evaluation of a lazily built value)
                  /\ x.b \in BOOLEAN
RxTypeOK(R) == /\ R.ok \in BOOLEAN
               /\ \A i \in 1..Len(R.f) : RxReadingOK(R.f[i])
               /\ R.ok => Len(R.f) = Len(RxFlat([i \in 1..Len(RxRows(R.msg)) |-> RxAbsent(RxRows(R.msg)[i].r)]))
=============================================================================
