------------------------------ MODULE IeCases ------------------------------
(* C09 - the case structure shared by stage A (laws of IeLayout on every type of the table) and
   stage B (cases replayed on the real accessors): for a type t of the table and one of its
   fields f, the prior contents of the element and the values written.
     base priors: all 0, all 1, 0x55.., 0xAA.., two seeded patterns
          x values: 0, 1, 2^n-1, 2^n, 2^n+1 (truncation), 0x55.., 0xAA.., the largest argument, a seeded
                    value; octet strings: constant and ramp patterns; for open-ended fields also
                    shorter and longer than the room
     walking priors: a walking 1 / walking 0 through every bit of the rows in WalkRows, of Iei, of Len
          x values: 0, the largest argument (all ones), a seeded value. *)
EXTENDS IeLayout, FiniteSets
CONSTANTS Wide,      \* TRUE: walk through every octet of the element; FALSE: touched rows and their neighbours
          Seed       \* 0..999, selects the seeded patterns

Rnd(i) == ((Seed % 1000) * 7919 + i * 10007 + 12345) % 65521
RndOct(i) == (Rnd(i) \div 7) % 256

\* contents sizes tried for a type
Sizes(t) == CASE t.cont = "octet" -> {1}
              [] t.cont = "array" -> {t.size}
              [] OTHER -> IF Wide THEN {t.size + 1, t.size + 4} ELSE {t.size + 2}
Rep(b, bits) == IF bits = 16 THEN b * 256 + b ELSE b          \* octet pattern repeated over a scalar
Elem(t, L, b) == [iei |-> IF t.hasIei THEN b ELSE -1,
                  len |-> IF t.lenBits = 0 THEN -1 ELSE Rep(b, t.lenBits),
                  oct |-> [i \in 1..L |-> b]]
SeededElem(t, L, k) == [iei |-> IF t.hasIei THEN RndOct(k) ELSE -1,
                        len |-> IF t.lenBits = 0 THEN -1 ELSE Rnd(k + 1) % 2^t.lenBits,
                        oct |-> [i \in 1..L |-> RndOct(k + 1 + i)]]
Flip(x, k) == IF (x \div 2^k) % 2 = 1 THEN x - 2^k ELSE x + 2^k
\* rows / scalars walked through bit by bit.  Narrow mode (quick): the rows the field touches, except for
\* single-octet bit fields (all 256 prior values of their octet are covered by digest conformance instead),
\* and the scalar the field is; wide mode (thorough): every octet of the element and both scalars.
WalkRows(t, f, L) == IF Wide \/ ~InContents(f) THEN (IF Wide THEN 0..(L - 1) ELSE {})
                     ELSE IF f.kind = "bits" /\ f.r0 = f.r1 THEN {}
                     ELSE Rows(f, L)
WalkIei(t, f) == t.hasIei /\ (Wide \/ f.kind = "iei")
WalkLen(t, f) == t.lenBits > 0 /\ (Wide \/ f.kind = "len")
Ends(t, L) == {Elem(t, L, 0), Elem(t, L, 255)}
BasePriorsL(t, f, L) == {Elem(t, L, b) : b \in {0, 255, 85, 170}} \cup {SeededElem(t, L, 3), SeededElem(t, L, 40)}
WalkPriorsL(t, f, L) ==
       {[e EXCEPT !.oct[r + 1] = Flip(@, k)] : e \in Ends(t, L), r \in WalkRows(t, f, L), k \in 0..7}
       \cup (IF WalkIei(t, f) THEN {[e EXCEPT !.iei = Flip(@, k)] : e \in Ends(t, L), k \in 0..7} ELSE {})
       \cup (IF WalkLen(t, f) THEN {[e EXCEPT !.len = Flip(@, k)] : e \in Ends(t, L), k \in 0..(t.lenBits - 1)} ELSE {})

Ramp(k, a) == IF k = 0 THEN <<>> ELSE [i \in 1..k |-> (a + 17 * i) % 256]
Const(k, b) == IF k = 0 THEN <<>> ELSE [i \in 1..k |-> b]
\* values for a field; `room` is the room of an open-ended field in the element at hand (unused otherwise)
ScalarValues(f) ==
  LET top == f.argmax IN
  {x \in {0, 1, 2^f.n - 2, 2^f.n - 1, 2^f.n, 2^f.n + 1, top - 1, Rep(85, IF top > 255 THEN 16 ELSE 8), Rep(170, IF top > 255 THEN 16 ELSE 8), top, Rnd(f.n + f.sbit) % (top + 1)}
     : x <= top}
\* one below the largest / one above the smallest multi-octet value (reserved "deleted" / "unknown" code points live there)
EndWith(k, b, last) == [i \in 1..k |-> IF i = k THEN last ELSE b]
ArrayValues(f) == LET k == f.r1 - f.r0 + 1 IN {Const(k, 0), Const(k, 255), Const(k, 85), Const(k, 170), Ramp(k, 1), Ramp(k, RndOct(k)),
                                               EndWith(k, 255, 254), EndWith(k, 0, 1), EndWith(k, 255, 0), EndWith(k, 0, 255)}
SliceValues(room) == {Ramp(k, RndOct(k)) : k \in {x \in {0, 1, room - 1, room, room + 1, room + 3} : x >= 0}} \cup {Const(room, 255), Const(room, 0)}
ValuesL(t, f, L) ==
  CASE f.kind = "string" -> {}                                  \* DNN text accessor: not a bit layout (judged by C12/C14)
    [] f.kind = "array"  -> ArrayValues(f)
    [] f.kind = "slice"  -> SliceValues(L - f.r0)
    [] OTHER -> ScalarValues(f)
\* the walking priors are combined with fewer values: nothing, everything, a seeded value
WalkValuesL(t, f, L) ==
  CASE f.kind = "string" -> {}
    [] f.kind = "array"  -> LET k == f.r1 - f.r0 + 1 IN {Const(k, 0), Const(k, 255), Ramp(k, RndOct(k))}
    [] f.kind = "slice"  -> LET room == L - f.r0 IN {Const(room, 0), Const(room, 255), Ramp(Max(room - 1, 0), RndOct(room))}
    [] OTHER -> {0, f.argmax, Rnd(f.n + f.sbit) % (f.argmax + 1)}
\* the cases of one field: groups of priors x values, per contents size
Groups(t, f) == {[L |-> L, walk |-> FALSE, priors |-> BasePriorsL(t, f, L), values |-> ValuesL(t, f, L)] : L \in Sizes(t)}
                \cup {[L |-> L, walk |-> TRUE, priors |-> WalkPriorsL(t, f, L), values |-> WalkValuesL(t, f, L)] : L \in Sizes(t)}
=============================================================================
