------------------------------ MODULE UePolicy ------------------------------
(* C18 - the UE policy container of TS 24.501 Annex D as a nested length-prefixed grammar.

   message            PTI, message type (1 command, 2 complete, 3 reject), body
   command body       UE policy section management list (D.6.2: IEI, 2-octet length, contents),
                      optionally the UE policy network classmark (D.6.7: IEI, length 2, NSSUI, spare)
   list contents      sublist*        sublist     = length(2) PLMN(3) instruction*
                                      instruction = length(2) UPSC(2) part*
                                      part        = length(2) type(1) contents
   reject body        UE policy section management result (D.6.3: IEI, 2-octet length, contents)
   result contents    subresult*      subresult   = length(2) PLMN(3) result*
                                      result      = UPSC(2) failed-instruction-order(2) cause(1)

   Every length is COMPUTED FROM THE CONTENT it covers (the octets after the length field).
   The three PLMN octets follow TS 24.008 10.5.1.13:
        octet 1 = MCC digit 2 | MCC digit 1      (digit 1 = first, most significant digit)
        octet 2 = MNC digit 3 | MCC digit 3      (MNC digit 3 = 1111 for a two-digit MNC)
        octet 3 = MNC digit 2 | MNC digit 1                           208/93 -> 02 F8 39

   The module is pure (no variables): Marshal*, the strict recursive parser Parse* (every
   recursive call is on a strictly shorter octet string - UeShorter asserts the measure), the
   positions of all length fields (the generator's mutation points), the projection of a
   structure (lengths, PLMN octets, UPSC, part types and contents) that a decoder must deliver.
   The parser as a small-step machine with an explicit termination measure is UePolicyParser;
   histories on one live structure (encode, append a fresh item, encode again) are UePolicyHistory.

   Note (information, not part of C18): in the messages of D.5 the two mandatory IEs have format
   LV-E; the library always carries an IEI octet in front.  The specification follows the IE
   layout of D.6.2/D.6.3 (with IEI), as DESIGN C18-S does. *)
EXTENDS Integers, Sequences, FiniteSets, TLC

UeBE16(n) == << n \div 256, n % 256 >>
UeU16(b, p) == b[p] * 256 + b[p + 1]
UeFail == [ok |-> FALSE, v |-> << >>]
UeOk(x) == [ok |-> TRUE, v |-> x]
\* termination measure of the recursive parsers: the argument of a recursive call is shorter
UeShorter(b, s) == IF Len(s) < Len(b) THEN s ELSE Assert(FALSE, "UePolicy: recursive call on a string that is not shorter")

\* ------------------------------------------------------------------ PLMN, TS 24.008 10.5.1.13
\* mccd = <<d1, d2, d3>>, mncd = <<d1, d2>> or <<d1, d2, d3>>, d1 the first digit
UePlmnDigitsToOctets(mccd, mncd) ==
  << mccd[2] * 16 + mccd[1],
     (IF Len(mncd) = 2 THEN 15 ELSE mncd[3]) * 16 + mccd[3],
     mncd[2] * 16 + mncd[1] >>
UeDigits3(n) == << n \div 100, (n \div 10) % 10, n % 10 >>
UeDigits2(n) == << n \div 10, n % 10 >>
\* the API of the library takes integers: an MNC below 100 is a two-digit MNC
UeMncDigits(mnc) == IF mnc < 100 THEN UeDigits2(mnc) ELSE UeDigits3(mnc)
UePlmnToOctets(mcc, mnc) == UePlmnDigitsToOctets(UeDigits3(mcc), UeMncDigits(mnc))

UePlmnWellFormed(o) ==
  /\ o[1] % 16 <= 9 /\ o[1] \div 16 <= 9 /\ o[2] % 16 <= 9
  /\ (o[2] \div 16 <= 9 \/ o[2] \div 16 = 15)
  /\ o[3] % 16 <= 9 /\ o[3] \div 16 <= 9
UeOctetsToPlmnDigits(o) ==
  [mccd |-> << o[1] % 16, o[1] \div 16, o[2] % 16 >>,
   mncd |-> IF o[2] \div 16 = 15 THEN << o[3] % 16, o[3] \div 16 >>
            ELSE << o[3] % 16, o[3] \div 16, o[2] \div 16 >>]
UeDigitsToInt(d) == IF Len(d) = 2 THEN d[1] * 10 + d[2] ELSE d[1] * 100 + d[2] * 10 + d[3]
UeOctetsToPlmn(o) == LET d == UeOctetsToPlmnDigits(o) IN << UeDigitsToInt(d.mccd), UeDigitsToInt(d.mncd) >>

\* ------------------------------------------------------------------ marshal
\* part = [ty, c]; instruction = [upsc, parts]; sublist = [plmn, ins];
\* result = [upsc, ord, cause]; subresult = [plmn, rs]
UeMarshalPart(p) == UeBE16(1 + Len(p.c)) \o << p.ty >> \o p.c
RECURSIVE UeMarshalParts(_)
UeMarshalParts(ps) == IF ps = << >> THEN << >> ELSE UeMarshalPart(Head(ps)) \o UeMarshalParts(Tail(ps))
UeMarshalInstr(i) == LET c == UeMarshalParts(i.parts) IN UeBE16(2 + Len(c)) \o UeBE16(i.upsc) \o c
RECURSIVE UeMarshalInstrs(_)
UeMarshalInstrs(is) == IF is = << >> THEN << >> ELSE UeMarshalInstr(Head(is)) \o UeMarshalInstrs(Tail(is))
UeMarshalSub(s) == LET c == UeMarshalInstrs(s.ins) IN UeBE16(3 + Len(c)) \o s.plmn \o c
RECURSIVE UeMarshalSubs(_)
UeMarshalSubs(ss) == IF ss = << >> THEN << >> ELSE UeMarshalSub(Head(ss)) \o UeMarshalSubs(Tail(ss))

UeMarshalRes(r) == UeBE16(r.upsc) \o UeBE16(r.ord) \o << r.cause >>
RECURSIVE UeMarshalRess(_)
UeMarshalRess(rs) == IF rs = << >> THEN << >> ELSE UeMarshalRes(Head(rs)) \o UeMarshalRess(Tail(rs))
UeMarshalSubRes(s) == LET c == UeMarshalRess(s.rs) IN UeBE16(3 + Len(c)) \o s.plmn \o c
RECURSIVE UeMarshalSubRess(_)
UeMarshalSubRess(ss) == IF ss = << >> THEN << >> ELSE UeMarshalSubRes(Head(ss)) \o UeMarshalSubRess(Tail(ss))

\* an IE of D.6.2 / D.6.3: IEI, length of contents, contents
UeMarshalIE(iei, content) == << iei >> \o UeBE16(Len(content)) \o content
\* classmark cm = << >> (absent) or <<iei, nssui>>
UeMarshalCm(cm) == IF cm = << >> THEN << >> ELSE << cm[1], 2, cm[2], 0 >>
\* message m = [pti, type, iei, subs, srs, cm]; only the fields of its type are used
UeKnownType(t) == t \in {1, 2, 3}
UeMarshalMsg(m) ==
  << m.pti, m.type >> \o
  CASE m.type = 1 -> UeMarshalIE(m.iei, UeMarshalSubs(m.subs)) \o UeMarshalCm(m.cm)
    [] m.type = 2 -> << >>
    [] m.type = 3 -> UeMarshalIE(m.iei, UeMarshalSubRess(m.srs))

\* ------------------------------------------------------------------ strict parser
\* accepts exactly the images of Marshal*: a length must cover whole elements and stay inside
\* its enclosing region
RECURSIVE UeParseParts(_)
UeParseParts(b) ==
  IF b = << >> THEN UeOk(<< >>)
  ELSE IF Len(b) < 3 THEN UeFail
  ELSE LET L == UeU16(b, 1) IN
       IF L < 1 \/ 2 + L > Len(b) THEN UeFail
       ELSE LET rest == UeParseParts(UeShorter(b, SubSeq(b, 3 + L, Len(b)))) IN
            IF ~rest.ok THEN UeFail
            ELSE UeOk(<< [ty |-> b[3], c |-> SubSeq(b, 4, 2 + L)] >> \o rest.v)

RECURSIVE UeParseInstrs(_)
UeParseInstrs(b) ==
  IF b = << >> THEN UeOk(<< >>)
  ELSE IF Len(b) < 4 THEN UeFail
  ELSE LET L == UeU16(b, 1) IN
       IF L < 2 \/ 2 + L > Len(b) THEN UeFail
       ELSE LET parts == UeParseParts(UeShorter(b, SubSeq(b, 5, 2 + L)))
                rest  == UeParseInstrs(UeShorter(b, SubSeq(b, 3 + L, Len(b)))) IN
            IF ~parts.ok \/ ~rest.ok THEN UeFail
            ELSE UeOk(<< [upsc |-> UeU16(b, 3), parts |-> parts.v] >> \o rest.v)

RECURSIVE UeParseSubs(_)
UeParseSubs(b) ==
  IF b = << >> THEN UeOk(<< >>)
  ELSE IF Len(b) < 5 THEN UeFail
  ELSE LET L == UeU16(b, 1) IN
       IF L < 3 \/ 2 + L > Len(b) THEN UeFail
       ELSE LET ins  == UeParseInstrs(UeShorter(b, SubSeq(b, 6, 2 + L)))
                rest == UeParseSubs(UeShorter(b, SubSeq(b, 3 + L, Len(b)))) IN
            IF ~ins.ok \/ ~rest.ok THEN UeFail
            ELSE UeOk(<< [plmn |-> SubSeq(b, 3, 5), ins |-> ins.v] >> \o rest.v)

\* "the receiving entity shall treat any other value as 0110 1111": the cause is delivered as 111
UeCauseUnspecified == 111
RECURSIVE UeParseRess(_)
UeParseRess(b) ==
  IF b = << >> THEN UeOk(<< >>)
  ELSE IF Len(b) < 5 THEN UeFail
  ELSE LET rest == UeParseRess(UeShorter(b, SubSeq(b, 6, Len(b)))) IN
       IF ~rest.ok THEN UeFail
       ELSE UeOk(<< [upsc |-> UeU16(b, 1), ord |-> UeU16(b, 3), cause |-> UeCauseUnspecified] >> \o rest.v)

RECURSIVE UeParseSubRess(_)
UeParseSubRess(b) ==
  IF b = << >> THEN UeOk(<< >>)
  ELSE IF Len(b) < 5 THEN UeFail
  ELSE LET L == UeU16(b, 1) IN
       IF L < 3 \/ 2 + L > Len(b) THEN UeFail
       ELSE LET rs   == UeParseRess(UeShorter(b, SubSeq(b, 6, 2 + L)))
                rest == UeParseSubRess(UeShorter(b, SubSeq(b, 3 + L, Len(b)))) IN
            IF ~rs.ok \/ ~rest.ok THEN UeFail
            ELSE UeOk(<< [plmn |-> SubSeq(b, 3, 5), rs |-> rs.v] >> \o rest.v)

\* IE at position 1 of b: [ok, iei, content, rest]
UeParseIE(b) ==
  IF Len(b) < 3 THEN [ok |-> FALSE, iei |-> 0, content |-> << >>, rest |-> << >>]
  ELSE LET L == UeU16(b, 2) IN
       IF 3 + L > Len(b) THEN [ok |-> FALSE, iei |-> 0, content |-> << >>, rest |-> << >>]
       ELSE [ok |-> TRUE, iei |-> b[1], content |-> SubSeq(b, 4, 3 + L), rest |-> SubSeq(b, 4 + L, Len(b))]

UeMsg(pti, type, iei, subs, srs, cm) == [pti |-> pti, type |-> type, iei |-> iei, subs |-> subs, srs |-> srs, cm |-> cm]
UeParseMsg(b) ==
  IF Len(b) < 2 THEN UeFail
  ELSE LET body == SubSeq(b, 3, Len(b)) IN
       CASE b[2] = 2 -> IF body = << >> THEN UeOk(UeMsg(b[1], 2, 0, << >>, << >>, << >>)) ELSE UeFail
         [] b[2] = 1 ->
              LET ie == UeParseIE(body) IN
              IF ~ie.ok THEN UeFail
              ELSE LET subs == UeParseSubs(ie.content)
                       r == ie.rest IN
                   IF ~subs.ok THEN UeFail
                   ELSE IF r = << >> THEN UeOk(UeMsg(b[1], 1, ie.iei, subs.v, << >>, << >>))
                   ELSE IF Len(r) = 4 /\ r[2] = 2 /\ r[4] = 0 THEN UeOk(UeMsg(b[1], 1, ie.iei, subs.v, << >>, << r[1], r[3] >>))
                   ELSE UeFail
         [] b[2] = 3 ->
              LET ie == UeParseIE(body) IN
              IF ~ie.ok \/ ie.rest # << >> THEN UeFail
              ELSE LET srs == UeParseSubRess(ie.content) IN
                   IF ~srs.ok THEN UeFail ELSE UeOk(UeMsg(b[1], 3, ie.iei, << >>, srs.v, << >>))
         [] OTHER -> UeFail

\* ------------------------------------------------------------------ where the length fields are
\* 1-based positions (of the first of the two octets) of every length field of an encoding that
\* starts at position `at`: the mutation points of the generator
RECURSIVE UeLenPosParts(_, _)
UeLenPosParts(ps, at) ==
  IF ps = << >> THEN {} ELSE {at} \cup UeLenPosParts(Tail(ps), at + 3 + Len(Head(ps).c))
RECURSIVE UeLenPosInstrs(_, _)
UeLenPosInstrs(is, at) ==
  IF is = << >> THEN {}
  ELSE {at} \cup UeLenPosParts(Head(is).parts, at + 4)
            \cup UeLenPosInstrs(Tail(is), at + Len(UeMarshalInstr(Head(is))))
RECURSIVE UeLenPosSubs(_, _)
UeLenPosSubs(ss, at) ==
  IF ss = << >> THEN {}
  ELSE {at} \cup UeLenPosInstrs(Head(ss).ins, at + 5)
            \cup UeLenPosSubs(Tail(ss), at + Len(UeMarshalSub(Head(ss))))
RECURSIVE UeLenPosSubRess(_, _)
UeLenPosSubRess(ss, at) ==
  IF ss = << >> THEN {} ELSE {at} \cup UeLenPosSubRess(Tail(ss), at + Len(UeMarshalSubRes(Head(ss))))
UeLenPosMsg(m) ==
  CASE m.type = 1 -> {4} \cup UeLenPosSubs(m.subs, 6)
    [] m.type = 3 -> {4} \cup UeLenPosSubRess(m.srs, 6)
    [] OTHER -> {}

\* b with the 16-bit field at p replaced by v
UePatch16(b, p, v) == SubSeq(b, 1, p - 1) \o UeBE16(v) \o SubSeq(b, p + 2, Len(b))

\* ------------------------------------------------------------------ projection
\* what a decoder must deliver for a structure: every length as computed from the content
UeProjPart(p) == [len |-> 1 + Len(p.c), ty |-> p.ty, c |-> p.c]
RECURSIVE UeProjParts(_)
UeProjParts(ps) == IF ps = << >> THEN << >> ELSE << UeProjPart(Head(ps)) >> \o UeProjParts(Tail(ps))
UeProjInstr(i) == [len |-> 2 + Len(UeMarshalParts(i.parts)), upsc |-> i.upsc, parts |-> UeProjParts(i.parts)]
RECURSIVE UeProjInstrs(_)
UeProjInstrs(is) == IF is = << >> THEN << >> ELSE << UeProjInstr(Head(is)) >> \o UeProjInstrs(Tail(is))
UeProjSub(s) == [len |-> 3 + Len(UeMarshalInstrs(s.ins)), plmn |-> s.plmn, ins |-> UeProjInstrs(s.ins)]
RECURSIVE UeProjSubs(_)
UeProjSubs(ss) == IF ss = << >> THEN << >> ELSE << UeProjSub(Head(ss)) >> \o UeProjSubs(Tail(ss))
UeProjSubRes(s) == [len |-> 3 + 5 * Len(s.rs), plmn |-> s.plmn, rs |-> s.rs]
RECURSIVE UeProjSubRess(_)
UeProjSubRess(ss) == IF ss = << >> THEN << >> ELSE << UeProjSubRes(Head(ss)) >> \o UeProjSubRess(Tail(ss))
UeProjCm(cm) == IF cm = << >> THEN << >> ELSE << cm[1], 2, cm[2], 0 >>
UeProjMsg(m) ==
  [pti |-> m.pti, type |-> m.type,
   iei |-> IF m.type \in {1, 3} THEN m.iei ELSE 0,
   len |-> CASE m.type = 1 -> Len(UeMarshalSubs(m.subs)) [] m.type = 3 -> Len(UeMarshalSubRess(m.srs)) [] OTHER -> 0,
   subs |-> IF m.type = 1 THEN UeProjSubs(m.subs) ELSE << >>,
   srs |-> IF m.type = 3 THEN UeProjSubRess(m.srs) ELSE << >>,
   cm |-> IF m.type = 1 THEN UeProjCm(m.cm) ELSE << >>]

\* ------------------------------------------------------------------ API-level values and growth
\* The API is given a PLMN as integers: sublist = [mcc, mnc, ins], subresult = [mcc, mnc, rs].
RECURSIVE UeSubsOfApi(_)
UeSubsOfApi(ss) == IF ss = << >> THEN << >>
                   ELSE << [plmn |-> UePlmnToOctets(Head(ss).mcc, Head(ss).mnc), ins |-> Head(ss).ins] >> \o UeSubsOfApi(Tail(ss))
RECURSIVE UeSrsOfApi(_)
UeSrsOfApi(ss) == IF ss = << >> THEN << >>
                  ELSE << [plmn |-> UePlmnToOctets(Head(ss).mcc, Head(ss).mnc), rs |-> Head(ss).rs] >> \o UeSrsOfApi(Tail(ss))
RECURSIVE UeApiOfSubs(_)
UeApiOfSubs(ss) == IF ss = << >> THEN << >>
                   ELSE LET mm == UeOctetsToPlmn(Head(ss).plmn) IN
                        << [mcc |-> mm[1], mnc |-> mm[2], ins |-> Head(ss).ins] >> \o UeApiOfSubs(Tail(ss))
RECURSIVE UeApiOfSrs(_)
UeApiOfSrs(ss) == IF ss = << >> THEN << >>
                  ELSE LET mm == UeOctetsToPlmn(Head(ss).plmn) IN
                       << [mcc |-> mm[1], mnc |-> mm[2], rs |-> Head(ss).rs] >> \o UeApiOfSrs(Tail(ss))
\* kind = "list" (sublists) or "result" (subresults)
UeMarshalApi(kind, val) == IF kind = "list" THEN UeMarshalSubs(UeSubsOfApi(val)) ELSE UeMarshalSubRess(UeSrsOfApi(val))
\* A structure grows by appending a FRESH item: a part to instruction i of sublist s, an instruction to
\* sublist s, a sublist to the list; a result to subresult s, a subresult to the result list.
UeGrowLevels(kind) == IF kind = "list" THEN {"part", "ins", "sub"} ELSE {"res", "sres"}
UeGrowOK(val, level, s, i) ==
  CASE level \in {"sub", "sres"} -> TRUE
    [] level \in {"ins", "res"} -> s \in 1..Len(val)
    [] level = "part" -> s \in 1..Len(val) /\ i \in 1..Len(val[s].ins)
UeGrow(val, level, s, i, item) ==
  CASE level \in {"sub", "sres"} -> Append(val, item)
    [] level = "ins" -> [val EXCEPT ![s] = [@ EXCEPT !.ins = Append(@, item)]]
    [] level = "res" -> [val EXCEPT ![s] = [@ EXCEPT !.rs = Append(@, item)]]
    [] level = "part" -> [val EXCEPT ![s] = [@ EXCEPT !.ins = [@ EXCEPT ![i] = [@ EXCEPT !.parts = Append(@, item)]]]]
\* octets the fresh item adds to the encoding (and to every length that encloses it)
UeItemSize(level, item) ==
  CASE level = "part" -> Len(UeMarshalPart(item))
    [] level = "ins" -> Len(UeMarshalInstr(item))
    [] level = "sub" -> Len(UeMarshalSubs(UeSubsOfApi(<< item >>)))
    [] level = "res" -> 5
    [] level = "sres" -> Len(UeMarshalSubRess(UeSrsOfApi(<< item >>)))
=============================================================================
