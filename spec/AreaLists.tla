------------------------------ MODULE AreaLists ------------------------------
(* C13 - slice and area lists: S-NSSAI (TS 24.501 9.11.2.8), NSSAI (9.11.3.37), rejected NSSAI (9.11.3.46),
   5GS tracking area identity list (9.11.3.9), service area list (9.11.3.49), LADN information (9.11.3.30),
   LADN indication (9.11.3.29) - as summarised in DESIGN.md Appendix A.  Written from the layouts, not from the Go code.

   Every structure has an abstract value, an encoder XEnc(v) and a decoder XDec(o) written independently.
   Decoders return [ok |-> BOOLEAN, v |-> value]; ok = FALSE for every octet string that is not a well-formed
   encoding (v is then a dummy).  Where the standard allows several encodings of one value (TAI list types 00/01/10,
   splitting into partial lists) there are several encoders and ONE decoder that accepts all of them. *)
EXTENDS Identity          \* PLMN coding (TS 24.008 10.5.1.13), hex text

RECURSIVE Flatten(_)
Flatten(ss) == IF Len(ss) = 0 THEN <<>> ELSE ss[1] \o Flatten(Tail(ss))

\* ------------------------------------------------------------------ S-NSSAI (9.11.2.8)
\* value [sst, sd, hsst, hsd]: sd / hsd are <<>> (absent) or 3 octets, hsst is <<>> or one octet (mapped HPLMN SST).
\* contents by length: 1 SST | 2 SST, mapped SST | 4 SST, SD | 5 SST, SD, mapped SST | 8 SST, SD, mapped SST, mapped SD
SnssaiLengths == {1, 2, 4, 5, 8}
SnssaiOK(v) == /\ v.sst \in 0..255 /\ Len(v.sd) \in {0, 3} /\ Len(v.hsst) \in {0, 1} /\ Len(v.hsd) \in {0, 3}
               /\ IsOctetSeq(v.sd) /\ IsOctetSeq(v.hsst) /\ IsOctetSeq(v.hsd)
               /\ (Len(v.hsd) = 3 => (Len(v.sd) = 3 /\ Len(v.hsst) = 1))
NoSnssai == [sst |-> 0, sd |-> <<>>, hsst |-> <<>>, hsd |-> <<>>]
Plain(sst, sd) == [sst |-> sst, sd |-> sd, hsst |-> <<>>, hsd |-> <<>>]
SnssaiContents(v) == <<v.sst>> \o v.sd \o v.hsst \o v.hsd
SnssaiEnc(v) == <<Len(SnssaiContents(v))>> \o SnssaiContents(v)            \* length + contents, as inside an NSSAI
SnssaiOfContents(c) ==
  CASE Len(c) = 1 -> [sst |-> c[1], sd |-> <<>>, hsst |-> <<>>, hsd |-> <<>>]
    [] Len(c) = 2 -> [sst |-> c[1], sd |-> <<>>, hsst |-> <<c[2]>>, hsd |-> <<>>]
    [] Len(c) = 4 -> [sst |-> c[1], sd |-> SubSeq(c, 2, 4), hsst |-> <<>>, hsd |-> <<>>]
    [] Len(c) = 5 -> [sst |-> c[1], sd |-> SubSeq(c, 2, 4), hsst |-> <<c[5]>>, hsd |-> <<>>]
    [] Len(c) = 8 -> [sst |-> c[1], sd |-> SubSeq(c, 2, 4), hsst |-> <<c[5]>>, hsd |-> SubSeq(c, 6, 8)]
    [] OTHER -> NoSnssai

\* ------------------------------------------------------------------ NSSAI (9.11.3.37): S-NSSAI entries one after the other
NssaiEnc(vs) == Flatten([i \in 1..Len(vs) |-> SnssaiEnc(vs[i])])
RECURSIVE NssaiDec(_)
NssaiDec(o) ==
  IF Len(o) = 0 THEN [ok |-> TRUE, v |-> <<>>]
  ELSE IF o[1] \notin SnssaiLengths \/ Len(o) < 1 + o[1] THEN [ok |-> FALSE, v |-> <<>>]      \* malformed length
  ELSE LET rest == NssaiDec(SubSeq(o, o[1] + 2, Len(o))) IN
       IF rest.ok THEN [ok |-> TRUE, v |-> <<SnssaiOfContents(SubSeq(o, 2, o[1] + 1))>> \o rest.v]
       ELSE [ok |-> FALSE, v |-> <<>>]

\* ------------------------------------------------------------------ rejected NSSAI (9.11.3.46)
\* entry [sst, sd, cause]: octet 1 = length of the S-NSSAI that follows (1 or 4) in bits 8-5 | cause in bits 4-1
CausePlmn == 0          \* S-NSSAI not available in the current PLMN
CauseRegArea == 1       \* S-NSSAI not available in the current registration area
RejEntryEnc(r) == <<16 * (1 + Len(r.sd)) + r.cause, r.sst>> \o r.sd
RejEnc(rs) == Flatten([i \in 1..Len(rs) |-> RejEntryEnc(rs[i])])
RECURSIVE RejDec(_)
RejDec(o) ==
  IF Len(o) = 0 THEN [ok |-> TRUE, v |-> <<>>]
  ELSE LET n == o[1] \div 16 IN
       IF n \notin {1, 4} \/ Len(o) < 1 + n THEN [ok |-> FALSE, v |-> <<>>]
       ELSE LET rest == RejDec(SubSeq(o, n + 2, Len(o))) IN
            IF rest.ok THEN [ok |-> TRUE, v |-> <<[sst |-> o[2], sd |-> SubSeq(o, 3, n + 1), cause |-> o[1] % 16]>> \o rest.v]
            ELSE [ok |-> FALSE, v |-> <<>>]

\* ------------------------------------------------------------------ 5GS tracking area identity list (9.11.3.9)
\* value: sequence of TAIs [plmn, tac (3 octets)].  The IE is a sequence of partial lists, each
\*   octet 1 = 0 | type of list (2) | number of elements - 1 (5);    at most 16 elements
\*   type 00: PLMN, then n TACs                       (one PLMN, non-consecutive TACs)
\*   type 01: PLMN, then the first TAC                (one PLMN, n consecutive TACs)
\*   type 10: n x (PLMN, TAC)                         (different PLMNs)
MaxTais == 16
TaiOK(t) == PlmnOK(t.plmn) /\ Len(t.tac) = 3 /\ IsOctetSeq(t.tac)
TacNum(t) == 65536 * t[1] + 256 * t[2] + t[3]
TacOf(n)  == <<(n \div 65536) % 256, (n \div 256) % 256, n % 256>>
Tai(p, tac) == [plmn |-> p, tac |-> tac]
SamePlmn(ts)    == \A i \in 1..Len(ts) : ts[i].plmn = ts[1].plmn
Consecutive(ts) == SamePlmn(ts) /\ \A i \in 1..Len(ts) : TacNum(ts[i].tac) = TacNum(ts[1].tac) + i - 1

Partial00(ts) == <<Len(ts) - 1>> \o PlmnToWire(ts[1].plmn) \o Flatten([i \in 1..Len(ts) |-> ts[i].tac])            \* needs SamePlmn
Partial01(ts) == <<32 + Len(ts) - 1>> \o PlmnToWire(ts[1].plmn) \o ts[1].tac                                        \* needs Consecutive
Partial10(ts) == <<64 + Len(ts) - 1>> \o Flatten([i \in 1..Len(ts) |-> PlmnToWire(ts[i].plmn) \o ts[i].tac])

\* one decoder for TAI lists and service area lists: `sal` says whether bit 8 (allowed type) and list type 11 exist
\* result v: sequence of partial lists [na |-> bit 8, whole |-> BOOLEAN (type 11: all TAIs of the PLMN), tais |-> TAIs]
RECURSIVE PartialsDec(_, _)
PartialsDec(o, sal) ==
  IF Len(o) = 0 THEN [ok |-> TRUE, v |-> <<>>]
  ELSE LET na   == o[1] \div 128
           type == (o[1] \div 32) % 4
           n    == (o[1] % 32) + 1
           size == CASE type = 0 -> 4 + 3 * n [] type = 1 -> 7 [] type = 2 -> 1 + 6 * n [] OTHER -> 4
       IN IF (~sal /\ (na = 1 \/ type = 3)) \/ n > MaxTais \/ Len(o) < size THEN [ok |-> FALSE, v |-> <<>>]
          ELSE LET p == PlmnFromWire(SubSeq(o, 2, 4))
                   tais == CASE type = 0 -> [i \in 1..n |-> Tai(p.v, SubSeq(o, 2 + 3 * i, 4 + 3 * i))]
                             [] type = 1 -> [i \in 1..n |-> Tai(p.v, TacOf(TacNum(SubSeq(o, 5, 7)) + i - 1))]
                             [] type = 2 -> [i \in 1..n |-> Tai(PlmnFromWire(SubSeq(o, 6 * i - 4, 6 * i - 2)).v, SubSeq(o, 6 * i - 1, 6 * i + 1))]
                             [] OTHER -> <<Tai(p.v, <<0, 0, 0>>)>>
                   plmnsOK == IF type = 2 THEN \A i \in 1..n : PlmnFromWire(SubSeq(o, 6 * i - 4, 6 * i - 2)).ok ELSE p.ok
                   rest == PartialsDec(SubSeq(o, size + 1, Len(o)), sal)
               IN IF plmnsOK /\ rest.ok
                  THEN [ok |-> TRUE, v |-> <<[na |-> na, whole |-> type = 3, tais |-> SubSeq(tais, 1, Len(tais))]>> \o rest.v]
                  ELSE [ok |-> FALSE, v |-> <<>>]

\* TAI list: the TAIs of all partial lists in order; a list holds 1..16 TAIs
TaiListDec(o) ==
  LET d == PartialsDec(o, FALSE)
      ts == Flatten([i \in 1..Len(d.v) |-> d.v[i].tais])
  IN IF d.ok /\ Len(d.v) >= 1 /\ Len(ts) <= MaxTais THEN [ok |-> TRUE, v |-> ts] ELSE [ok |-> FALSE, v |-> <<>>]

\* ------------------------------------------------------------------ service area list (9.11.3.49)
\* as the TAI list with bit 8 of each partial list = allowed type (0: the TAIs are in the allowed area, 1: in the
\* non-allowed area) and the additional list type 11 (PLMN only: every TAI of the PLMN is in the allowed area).
\* value [na, tais, whole]: all partial lists carry the same allowed type; whole = PLMNs given with type 11.
SalPartial00(na, ts) == <<128 * na + Len(ts) - 1>> \o PlmnToWire(ts[1].plmn) \o Flatten([i \in 1..Len(ts) |-> ts[i].tac])
SalPartial01(na, ts) == <<128 * na + 32 + Len(ts) - 1>> \o PlmnToWire(ts[1].plmn) \o ts[1].tac
SalPartial10(na, ts) == <<128 * na + 64 + Len(ts) - 1>> \o Flatten([i \in 1..Len(ts) |-> PlmnToWire(ts[i].plmn) \o ts[i].tac])
SalPartial11(p)      == <<96>> \o PlmnToWire(p)
SalDec(o) ==
  LET d == PartialsDec(o, TRUE)
      ts == Flatten([i \in 1..Len(d.v) |-> IF d.v[i].whole THEN <<>> ELSE d.v[i].tais])
      wh == Flatten([i \in 1..Len(d.v) |-> IF d.v[i].whole THEN <<d.v[i].tais[1].plmn>> ELSE <<>>])
  IN IF d.ok /\ Len(d.v) >= 1 /\ Len(ts) <= MaxTais /\ (\A i, j \in 1..Len(d.v) : d.v[i].na = d.v[j].na)
     THEN [ok |-> TRUE, v |-> [na |-> d.v[1].na, tais |-> ts, whole |-> wh]]
     ELSE [ok |-> FALSE, v |-> [na |-> 0, tais |-> <<>>, whole |-> <<>>]]

\* ------------------------------------------------------------------ LADN information (9.11.3.30) / LADN indication (9.11.3.29)
\* LADN: [dnn |-> octets of the DNN value (1..100), tais |-> TAI list]
\* information: per LADN  length of DNN | DNN value | length of TAI list | TAI list contents
\* indication:  per LADN  length of DNN | DNN value
MaxDnn == 100
LadnEnc(l, taiEnc) == <<Len(l.dnn)>> \o l.dnn \o <<Len(taiEnc)>> \o taiEnc       \* taiEnc: any legal encoding of l.tais
RECURSIVE LadnInfoDec(_)
LadnInfoDec(o) ==
  IF Len(o) = 0 THEN [ok |-> TRUE, v |-> <<>>]
  ELSE LET n == o[1] IN
       IF n = 0 \/ n > MaxDnn \/ Len(o) < n + 2 THEN [ok |-> FALSE, v |-> <<>>]
       ELSE LET m == o[n + 2] IN
            IF Len(o) < n + 2 + m THEN [ok |-> FALSE, v |-> <<>>]
            ELSE LET t == TaiListDec(SubSeq(o, n + 3, n + 2 + m))
                     rest == LadnInfoDec(SubSeq(o, n + 3 + m, Len(o)))
                 IN IF t.ok /\ rest.ok THEN [ok |-> TRUE, v |-> <<[dnn |-> SubSeq(o, 2, n + 1), tais |-> t.v]>> \o rest.v]
                    ELSE [ok |-> FALSE, v |-> <<>>]

LadnIndEnc(ds) == Flatten([i \in 1..Len(ds) |-> <<Len(ds[i])>> \o ds[i]])
RECURSIVE LadnIndDec(_)
LadnIndDec(o) ==
  IF Len(o) = 0 THEN [ok |-> TRUE, v |-> <<>>]
  ELSE LET n == o[1] IN
       IF n = 0 \/ n > MaxDnn \/ Len(o) < n + 1 THEN [ok |-> FALSE, v |-> <<>>]
       ELSE LET rest == LadnIndDec(SubSeq(o, n + 2, Len(o))) IN
            IF rest.ok THEN [ok |-> TRUE, v |-> <<SubSeq(o, 2, n + 1)>> \o rest.v] ELSE [ok |-> FALSE, v |-> <<>>]

\* ------------------------------------------------------------------ model values (OpenAPI data types) <-> abstract values
\* Snssai {sst, sd}: sd is "" or 6 hex digits;  Tai {plmnId {mcc, mnc}, tac}: tac is 6 hex digits (TS 29.571)
SdOK(t)   == Len(t) = 0 \/ (Len(t) = 6 /\ AllHexCp(t))
TacOK(t)  == Len(t) = 6 /\ AllHexCp(t)
SdOctets(t) == IF Len(t) = 0 THEN <<>> ELSE HexOctets(t)
SdText(sd)  == IF Len(sd) = 0 THEN <<>> ELSE HexText(sd)
=============================================================================
