-------------------------- MODULE NasSecureChannel --------------------------
(* X01 (growth beyond the listed properties) - ONE DIRECTION OF A 5G NAS SECURITY CONTEXT, as a 5G core
   and a UE build it from the pieces of this library (TS 33.501 6.4, TS 24.501 4.4):

     sender and receiver share KNASenc, KNASint, the algorithm identities NEA/NIA, the bearer and the
     direction; the sender keeps the NAS COUNT of the direction (24 bits = NAS OVERFLOW(16) || NAS SQN(8));
     the receiver keeps the count it expects next; the environment owns the network in between.

     Protect(plain):   octets := encode(plain); cipher in place under COUNT = 0x00 || NAS COUNT;
                       MAC over  SQN || ciphertext ; wire = EPD 7E | header type 2 | MAC(4) | SQN(1) | ciphertext;
                       sender COUNT + 1.
     Unprotect(wire):  parse the envelope; ESTIMATE the count from the received SQN and the stored count
                       (TS 24.501 4.4.3.1/4.4.3.5: the overflow counter is incremented when the SQN wraps, i.e.
                       when the received SQN is smaller than the stored one); verify the MAC under the estimate:
                       mismatch => reject, NOTHING changes; else decipher, decode, store estimate + 1.

   CRYPTOGRAPHY IS ABSTRACT.  An octet string is the symbolic value   pl (+) XOR of the keystreams in ks
   (+) XOR of the unit vectors in fl :   the free Z2-module over plaintexts, keystream points and bit
   positions.  A keystream is an uninterpreted function of (COUNT, BEARER, DIRECTION) (and the length, which
   is that of the data); nothing is assumed except that keystreams of different points and bit flips are
   independent (no accidental cancellation).  A MAC is the symbolic term (COUNT, BEARER, DIRECTION, SQN, data):
   an injective function of its inputs (collision-free; the real 32-bit MAC is so with probability 1 - 2^-32
   per attempt).  NIA0 gives the constant zero MAC, NEA0 the identity cipher (TS 33.501 Annex D.1).

   The moduli are constants: SqnMod = 256, OvfMod = 65536 are the real ones (trace validation); the model
   checker uses SqnMod = 4 and OvfMod = 2..3 so that SQN wrap, overflow carry and the wrap of the whole
   count are all reachable.  Ghost fields (uid, the logs `sent`, `dlv`) are not visible to the protocol.

   The operators of the first part (count arithmetic, Protect, Unprotect) take the security context as an
   argument and are shared with the trace specification spec/trace/Trace_X01.tla. *)
EXTENDS Integers, Sequences, FiniteSets, TLC
CONSTANTS SqnMod, OvfMod,   \* radix of the two digits of the NAS COUNT
          Ctx,              \* the shared security context [nia, nea, bearer, dir]
          Msgs,             \* plain NAS messages
          Starts,           \* initial NAS COUNT (both ends)
          NetCap,           \* wires in flight
          MaxSent,          \* Send actions per behaviour
          EnvBudget,        \* environment actions per behaviour
          Env,              \* enabled environment actions: subset of EnvAll
          Skips,            \* SkipCounts(n), n in Skips
          MaxLead,          \* SkipCounts only while the sender leads the receiver by at most MaxLead counts
          AllowWrap,        \* may the sender run through the end of the count space (forbidden by TS 33.501 6.4.3)
          Bits,             \* [hdr, mac, sqn, ct |-> set of bit positions the environment may flip]
          ReflectCounts,    \* counts the environment uses for wires of the mirror direction (besides rc and sc - 1)
          RefuseWrap        \* does the receiver refuse an estimate whose overflow would wrap past OvfMod - 1
VARIABLES sc,      \* sender: NAS COUNT of the next message
          rc,      \* receiver: NAS COUNT expected next (estimate of the last accepted + 1)
          net,     \* wires in flight, a sequence; head is delivered
          sent,    \* ghost: everything the sender protected and put on the network, by uid
          dlv,     \* ghost: everything the receiver accepted
          rej,     \* ghost: number of rejected deliveries
          budget,  \* environment actions left
          wrapped, \* ghost: the sender count, or an accepted estimate, has run through the end of the count space
          last     \* the action just taken
vars == <<sc, rc, net, sent, dlv, rej, budget, wrapped, last>>
EnvAll == {"Drop", "Dup", "Reorder", "Tamper", "Skip", "Reflect"}

\* ------------------------------------------------------------------ NAS COUNT arithmetic
M == SqnMod * OvfMod
SqnOf(c) == c % SqnMod
OvfOf(c) == c \div SqnMod
AddOne(c) == (c + 1) % M
AddN(c, n) == (c + n) % M
\* the count a received SQN stands for, given the stored count: same overflow, or the next one when the SQN wrapped
Estimate(stored, sqn) ==
  LET o == IF sqn < SqnOf(stored) THEN (OvfOf(stored) + 1) % OvfMod ELSE OvfOf(stored) IN o * SqnMod + sqn
\* how far the sender is ahead of what the receiver expects
Lead(s, r) == (s - r + M) % M

\* ------------------------------------------------------------------ symbolic cryptography
Toggle(S, x) == IF x \in S THEN S \ {x} ELSE S \cup {x}
Data(m) == [pl |-> m, ks |-> {}, fl |-> {}]
Clean(d) == d.ks = {} /\ d.fl = {}
Crypt(nea, cnt, bearer, dir, d) == IF nea = 0 THEN d ELSE [d EXCEPT !.ks = Toggle(@, <<cnt, bearer, dir>>)]
ZeroMac == [nul |-> TRUE, cnt |-> 0, bearer |-> 0, dir |-> 0, sqn |-> 0, d |-> Data(0)]
MacOf(nia, cnt, bearer, dir, sqn, d) ==
  IF nia = 0 THEN ZeroMac ELSE [nul |-> FALSE, cnt |-> cnt, bearer |-> bearer, dir |-> dir, sqn |-> sqn, d |-> d]

\* ------------------------------------------------------------------ the two protocol operations
\* a wire: header flips, MAC term, MAC flips, SQN octet, ciphertext; uid is ghost (0 = not produced by this sender)
Protect(ctx, cnt, m, uid) ==
  LET ct == Crypt(ctx.nea, cnt, ctx.bearer, ctx.dir, Data(m)) IN
  [hf |-> {}, mac |-> MacOf(ctx.nia, cnt, ctx.bearer, ctx.dir, SqnOf(cnt), ct), mf |-> {},
   sqn |-> SqnOf(cnt), ct |-> ct, uid |-> uid]
Unprotect(ctx, stored, w) ==
  LET est == Estimate(stored, w.sqn)
      ok == /\ w.hf = {}                     \* EPD 7E, header type "integrity protected and ciphered"
            /\ RefuseWrap => ~(w.sqn < SqnOf(stored) /\ OvfOf(stored) = OvfMod - 1)
            /\ w.mf = {} /\ w.mac = MacOf(ctx.nia, est, ctx.bearer, ctx.dir, w.sqn, w.ct)
  IN [ok |-> ok, est |-> est, pt |-> Crypt(ctx.nea, est, ctx.bearer, ctx.dir, w.ct),
      next |-> IF ok THEN AddOne(est) ELSE stored]
Mirror(ctx) == [ctx EXCEPT !.dir = 1 - @]
\* flip bit b of field f; the SQN is a number, the other fields are symbolic strings
FlipSqn(s, b) == IF (s \div (2^b)) % 2 = 1 THEN s - 2^b ELSE s + 2^b
Flip(w, f, b) ==
  CASE f = "hdr" -> [w EXCEPT !.hf = Toggle(@, b)]
    [] f = "mac" -> [w EXCEPT !.mf = Toggle(@, b)]
    [] f = "sqn" -> [w EXCEPT !.sqn = FlipSqn(@, b)]
    [] f = "ct"  -> [w EXCEPT !.ct.fl = Toggle(@, b)]

\* ------------------------------------------------------------------ the state machine
NoAct == [act |-> "Init", i |-> 0, m |-> 0, n |-> 0, f |-> "", b |-> 0, c |-> 0, ok |-> TRUE]
Init == /\ sc \in Starts /\ rc = sc /\ net = <<>> /\ sent = <<>> /\ dlv = <<>> /\ rej = 0
        /\ budget = EnvBudget /\ wrapped = FALSE /\ last = NoAct
Spend(a) == a \in Env /\ budget > 0 /\ budget' = budget - 1
RemoveAt(s, i) == SubSeq(s, 1, i - 1) \o SubSeq(s, i + 1, Len(s))

Send(m) ==
  /\ Len(sent) < MaxSent /\ Len(net) < NetCap /\ (AllowWrap \/ sc < M - 1)
  /\ LET w == Protect(Ctx, sc, m, Len(sent) + 1) IN
     /\ net' = Append(net, w)
     /\ sent' = Append(sent, [cnt |-> sc, msg |-> m, wire |-> w])
  /\ sc' = AddOne(sc) /\ wrapped' = (wrapped \/ sc = M - 1)
  /\ last' = [NoAct EXCEPT !.act = "Send", !.m = m]
  /\ UNCHANGED <<rc, dlv, rej, budget>>
\* the sender protects n messages that never arrive
Skip(n) ==
  /\ Spend("Skip") /\ (AllowWrap \/ sc + n <= M - 1) /\ Lead(sc, rc) + n <= MaxLead
  /\ sc' = AddN(sc, n) /\ wrapped' = (wrapped \/ sc + n >= M)
  /\ last' = [NoAct EXCEPT !.act = "Skip", !.n = n]
  /\ UNCHANGED <<rc, net, sent, dlv, rej>>
Deliver ==
  /\ net # <<>>
  /\ LET w == Head(net)  r == Unprotect(Ctx, rc, w) IN
     /\ rc' = r.next
     /\ dlv' = IF r.ok THEN Append(dlv, [uid |-> w.uid, cnt |-> r.est, pt |-> r.pt, rcb |-> rc]) ELSE dlv
     /\ rej' = IF r.ok THEN rej ELSE rej + 1
     /\ last' = [NoAct EXCEPT !.act = "Deliver", !.ok = r.ok, !.c = r.est]
     /\ wrapped' = (wrapped \/ (r.ok /\ r.next <= rc))      \* the estimate itself ran through the end of the count space
  /\ net' = Tail(net)
  /\ UNCHANGED <<sc, sent, budget>>
Drop(i) ==
  /\ Spend("Drop") /\ net' = RemoveAt(net, i)
  /\ last' = [NoAct EXCEPT !.act = "Drop", !.i = i]
  /\ UNCHANGED <<sc, rc, sent, dlv, rej, wrapped>>
Dup(i) ==
  /\ Spend("Dup") /\ Len(net) < NetCap /\ net' = Append(net, net[i])
  /\ last' = [NoAct EXCEPT !.act = "Dup", !.i = i]
  /\ UNCHANGED <<sc, rc, sent, dlv, rej, wrapped>>
\* wire i overtakes everything before it
Reorder(i) ==
  /\ Spend("Reorder") /\ i > 1 /\ net' = <<net[i]>> \o RemoveAt(net, i)
  /\ last' = [NoAct EXCEPT !.act = "Reorder", !.i = i]
  /\ UNCHANGED <<sc, rc, sent, dlv, rej, wrapped>>
Tamper(i, f, b) ==
  /\ Spend("Tamper") /\ net' = [net EXCEPT ![i] = Flip(@, f, b)]
  /\ last' = [NoAct EXCEPT !.act = "Tamper", !.i = i, !.f = f, !.b = b]
  /\ UNCHANGED <<sc, rc, sent, dlv, rej, wrapped>>
\* a wire protected with the same keys for the OTHER direction (same KNASint/KNASenc serve both) appears here
Reflect(m, c) ==
  /\ Spend("Reflect") /\ Len(net) < NetCap /\ net' = Append(net, Protect(Mirror(Ctx), c, m, 0))
  /\ last' = [NoAct EXCEPT !.act = "Reflect", !.m = m, !.c = c]
  /\ UNCHANGED <<sc, rc, sent, dlv, rej, wrapped>>
Fields == {"hdr", "mac", "sqn", "ct"}
Next == \/ \E m \in Msgs : Send(m)
        \/ Deliver
        \/ \E n \in Skips : Skip(n)
        \/ \E i \in 1..Len(net) : Drop(i) \/ Dup(i) \/ Reorder(i) \/ (\E f \in Fields : \E b \in Bits[f] : Tamper(i, f, b))
        \/ \E m \in Msgs, c \in ReflectCounts \cup {rc, (sc + M - 1) % M} : Reflect(m, c)
Spec == Init /\ [][Next]_vars

\* ------------------------------------------------------------------ properties
Range(s) == {s[i] : i \in DOMAIN s}
Genuine(w) == w.uid \in 1..Len(sent) /\ sent[w.uid].wire = w        \* exactly what the sender put on the network
WouldAccept(w) == Unprotect(Ctx, rc, w).ok
\* The conditions under which anything is promised: an integrity algorithm other than NULL, and nothing has run
\* through the end of the count space (TS 33.501 6.4.3.1: the context must be renewed before the NAS COUNT wraps):
\* neither the sender's count nor an estimate accepted by the receiver.  The second can happen WITHOUT the first:
\* in the last overflow epoch (overflow = OvfMod - 1) the estimate "overflow + 1" of a smaller SQN wraps to epoch 0,
\* so a recorded wire of epoch 0 verifies again (MC_X01_lastepoch) - unless the receiver refuses such estimates
\* (RefuseWrap, MC_X01_refuse).  SecureNow: the same, and the receiver is not in that last epoch right now.
Secure == Ctx.nia # 0 /\ ~wrapped
SecureNow == Secure /\ (RefuseWrap \/ OvfOf(rc) < OvfMod - 1)

TypeOK == /\ sc \in 0..(M - 1) /\ rc \in 0..(M - 1) /\ Len(net) <= NetCap /\ Len(sent) <= MaxSent /\ budget \in 0..EnvBudget
          /\ \A i \in DOMAIN net : net[i].sqn \in 0..(SqnMod - 1)
\* The statements proper (suffix P) and their guarded forms; the unguarded ones are used for the negative controls.
\* everything delivered was sent, with the same count, and is the plain message that was sent
AuthenticityP == \A i \in DOMAIN dlv :
                   LET d == dlv[i] IN /\ d.uid \in 1..Len(sent) /\ sent[d.uid].cnt = d.cnt
                                      /\ Clean(d.pt) /\ d.pt.pl = sent[d.uid].msg
\* a wire is accepted at most once, and the accepted counts increase strictly
NoReplayP == \A i, j \in DOMAIN dlv : i < j => (dlv[i].uid # dlv[j].uid /\ dlv[i].cnt < dlv[j].cnt)
\* a wire older than the count the receiver expects is never accepted
NoReorderAcceptOldP == \A i \in DOMAIN dlv : /\ dlv[i].rcb <= dlv[i].cnt
                                              /\ dlv[i].uid \in 1..Len(sent) /\ dlv[i].rcb <= sent[dlv[i].uid].cnt
\* whatever is on the network and is not exactly a wire of this sender (bit flips, other direction) would be rejected now
TamperRejectedP == \A i \in DOMAIN net : ~Genuine(net[i]) => ~WouldAccept(net[i])
\* the acceptance window, exactly: a genuine wire is accepted iff its count is among the next SqnMod counts expected
AcceptWindowP == \A i \in DOMAIN net : Genuine(net[i]) =>
                   LET c == sent[net[i].uid].cnt IN WouldAccept(net[i]) <=> (rc <= c /\ c < rc + SqnMod)
Authenticity == Secure => AuthenticityP
NoReplay == Secure => NoReplayP
NoReorderAcceptOld == Secure => NoReorderAcceptOldP
TamperRejected == Secure => TamperRejectedP
AcceptWindow == SecureNow => AcceptWindowP
ReceiverNotAhead == Secure => rc <= sc
\* counts never go back (until the sender runs through the end of the count space); a rejection changes nothing
CountMonotone == [][(~wrapped' => sc' >= sc) /\ (Secure' => rc' >= rc)]_vars
RejectIsNoOp == [][(last'.act = "Deliver" /\ ~last'.ok) => (rc' = rc /\ dlv' = dlv)]_vars
\* on a network that only delays: every delivery is accepted, in order, and nothing is missing when the network is empty
\* (this one needs no proviso: it holds with NIA0 and across the wrap of the whole count as well)
RoundTrip == /\ rej = 0 /\ Len(dlv) <= Len(sent)
             /\ \A i \in DOMAIN dlv : dlv[i].uid = i /\ Clean(dlv[i].pt) /\ dlv[i].pt.pl = sent[i].msg /\ dlv[i].cnt = sent[i].cnt
             /\ (net = <<>> => Len(dlv) = Len(sent))
\* Resync: with at most MaxLead = SqnMod - 1 counts lost in a row nothing is ever rejected
NoReject == rej = 0
\* ... and one more loss desynchronises for good: once the sender leads by SqnMod or more and nothing that stems from
\* a wire inside the window is in flight, nothing in flight or sent later is ever accepted again
InWindow(c) == rc <= c /\ c < rc + SqnMod
Desynced == /\ Lead(sc, rc) >= SqnMod
            /\ \A i \in DOMAIN net : net[i].uid = 0 \/ ~InWindow(sent[net[i].uid].cnt)
DesyncIsPermanent == [][(SecureNow /\ Desynced) => (Desynced' /\ dlv' = dlv)]_vars
DesyncedRejectsAll == (SecureNow /\ Desynced) => \A i \in DOMAIN net : ~WouldAccept(net[i])
NeverDesynced == ~Desynced
=============================================================================
