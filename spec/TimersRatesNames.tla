------------------------- MODULE TimersRatesNames -------------------------
(* C17.  Reference semantics of the small value encodings used by the 5GS NAS converters,
   written from the standards (not from the Go code):

     GPRS timer 2          TS 24.008 10.5.7.4    unit(3) || value(5)
     GPRS timer 3          TS 24.008 10.5.7.4a   unit(3) || value(5)
     Session-AMBR          TS 24.501 9.11.4.14   unit, BE16 value per direction, Table 9.11.4.14.1
     Time zone             TS 23.040 9.2.3.11    quarter hours, BCD, semi-octets swapped, sign bit
     Time stamp            TS 23.040 9.2.3.11    seven octets yy mm dd hh mm ss tz
     Network name          TS 24.008 10.5.3.5a + TS 23.038 6.1.2.1.1  GSM 7-bit packing, spare bits

   Each encoding has a decoder (the normative reading of the octets), an encoder of the
   specification's own, and the laws that stage A checks on the full domains
   (decode o encode identities, floor property of the timers, calendar round trip). *)
EXTENDS Integers, Sequences, FiniteSets

Min(a, b) == IF a < b THEN a ELSE b
Pow2(n) == CASE n = 0 -> 1 [] n = 1 -> 2 [] n = 2 -> 4 [] n = 3 -> 8 [] n = 4 -> 16
             [] n = 5 -> 32 [] n = 6 -> 64 [] n = 7 -> 128 [] n = 8 -> 256
Octets == 0..255

(***************************** GPRS timers *********************************)
Deactivated == -1          \* unit 111: "value indicates that the timer is deactivated"

\* TS 24.008 Table 10.5.172: 000 x 2 s, 001 x 1 min, 010 x decihour, 111 deactivated,
\* other values: multiples of 1 minute in this version of the protocol.
Timer2Mult(u) == CASE u = 0 -> 2 [] u = 1 -> 60 [] u = 2 -> 360 [] OTHER -> 60
Timer2Decode(o) == IF o \div 32 = 7 THEN Deactivated ELSE Timer2Mult(o \div 32) * (o % 32)
Timer2Max == 11160         \* 31 decihours

\* TS 24.008 Table 10.5.163a: 000 x 10 min, 001 x 1 h, 010 x 10 h, 011 x 2 s, 100 x 30 s,
\* 101 x 1 min, 110 x 320 h, 111 deactivated.
Timer3Mult(u) == CASE u = 0 -> 600 [] u = 1 -> 3600 [] u = 2 -> 36000 [] u = 3 -> 2
                   [] u = 4 -> 30 [] u = 5 -> 60 [] u = 6 -> 1152000 [] OTHER -> 0
Timer3Decode(o) == IF o \div 32 = 7 THEN Deactivated ELSE Timer3Mult(o \div 32) * (o % 32)
Timer3Max == 1116000       \* 31 x 10 h: the range of the statement

\* units ordered from the finest to the coarsest multiplier
Timer2Ladder == <<0, 1, 2>>
Timer3Ladder == <<3, 4, 5, 0, 1, 2, 6>>

Representable2(d) == \E u \in 0..2 : d % Timer2Mult(u) = 0 /\ d \div Timer2Mult(u) <= 31
Representable3(d) == \E u \in 0..6 : d % Timer3Mult(u) = 0 /\ d \div Timer3Mult(u) <= 31

\* The specification's own encoder: the best floor.  Per unit the largest octet value not above
\* d is min(31, d div mult); the encoder takes the unit whose candidate decodes to the most,
\* the finest such unit on ties (durations beyond every unit saturate at the coarsest one).
Timer2Mults == [u \in 0..7 |-> Timer2Mult(u)]
Timer3Mults == [u \in 0..7 |-> Timer3Mult(u)]
Cand(mults, u, d) == Min(31, d \div mults[u])
RECURSIVE LadderMax(_, _, _, _)
LadderMax(d, ladder, mults, i) ==
  LET here == Cand(mults, ladder[i], d) * mults[ladder[i]] IN
  IF i = Len(ladder) THEN here
  ELSE LET rest == LadderMax(d, ladder, mults, i + 1) IN IF rest > here THEN rest ELSE here
LadderEnc(d, ladder, mults) ==
  LET best == LadderMax(d, ladder, mults, 1)
      i == CHOOSE k \in 1..Len(ladder) :
             /\ Cand(mults, ladder[k], d) * mults[ladder[k]] = best
             /\ \A k2 \in 1..(k - 1) : Cand(mults, ladder[k2], d) * mults[ladder[k2]] # best
  IN ladder[i] * 32 + Cand(mults, ladder[i], d)
Timer2Encode(d) == LadderEnc(d, Timer2Ladder, Timer2Mults)
Timer3Encode(d) == LadderEnc(d, Timer3Ladder, Timer3Mults)

\* Verdict predicate of the property for an octet `o` produced for the requested duration d:
\* never more than requested (a deactivated timer never expires: more than any request),
\* exact when d is representable.
TimerOK(dec(_), rep(_), d, o) ==
  /\ o \in Octets
  /\ dec(o) # Deactivated
  /\ dec(o) <= d
  /\ rep(d) => dec(o) = d
Timer2OK(d, o) == TimerOK(Timer2Decode, Representable2, d, o)
Timer3OK(d, o) == TimerOK(Timer3Decode, Representable3, d, o)

\* laws (stage A, every duration of the range)
Timer2Law(d) == Timer2OK(d, Timer2Encode(d))
Timer3Law(d) == Timer3OK(d, Timer3Encode(d))
\* the encoder is the best floor, stated directly over all octets: nothing decodes into (Decode(Encode(d)), d]
Timer2Best(d) == \A o \in 0..223 : Timer2Decode(o) <= d => Timer2Decode(o) <= Timer2Decode(Timer2Encode(d))
Timer3Best(d) == \A o \in 0..223 : Timer3Decode(o) <= d => Timer3Decode(o) <= Timer3Decode(Timer3Encode(d))

(***************************** Session-AMBR ********************************)
\* Table 9.11.4.14.1: code 0 "value is not used"; code c in 1..25 = 4^((c-1) mod 5) x 1000^((c-1) div 5) Kbps
\* i.e. 1 = 1 Kbps, 2 = 4 Kbps, ... 6 = 1 Mbps, 11 = 1 Gbps, 16 = 1 Tbps, 21 = 1 Pbps, 25 = 256 Pbps.
AmbrUnits == <<"Kbps", "Mbps", "Gbps", "Tbps", "Pbps">>
AmbrUnitSet == {AmbrUnits[i] : i \in 1..5}
AmbrPrefixIndex(unit) == CHOOSE i \in 1..5 : AmbrUnits[i] = unit
AmbrUnitCode(unit) == 5 * (AmbrPrefixIndex(unit) - 1) + 1
\* reading of a unit octet: <<multiplier (1,4,16,64,256), prefix index>>; <<0,0>> = not used / reserved here
AmbrUnitDecode(c) == IF c \in 1..25 THEN <<Pow2(2 * ((c - 1) % 5)), (c - 1) \div 5 + 1>> ELSE <<0, 0>>

\* contents of the IE: unit DL, value DL (BE16), unit UL, value UL (BE16)
AmbrEncode(dlv, dlu, ulv, ulu) ==
  <<AmbrUnitCode(dlu), dlv \div 256, dlv % 256, AmbrUnitCode(ulu), ulv \div 256, ulv % 256>>
AmbrDecode(o) == [dlv |-> o[2] * 256 + o[3], dlu |-> AmbrUnitDecode(o[1]),
                  ulv |-> o[5] * 256 + o[6], ulu |-> AmbrUnitDecode(o[4])]
AmbrLaw(v, unit, w, unit2) ==
  LET r == AmbrDecode(AmbrEncode(v, unit, w, unit2)) IN
  /\ r.dlv = v /\ r.dlu = <<1, AmbrPrefixIndex(unit)>>
  /\ r.ulv = w /\ r.ulu = <<1, AmbrPrefixIndex(unit2)>>

(***************************** time zone ***********************************)
\* A zone is a number of quarter hours q, -79..79 (two BCD digits).  TS 23.040: the two digits
\* are stored as semi-octets (first digit in bits 0-3), bit 3 of the first semi-octet is the sign.
ZoneRange == -79..79
Abs(x) == IF x < 0 THEN -x ELSE x
ZoneEncode(q) == (Abs(q) % 10) * 16 + (Abs(q) \div 10) + (IF q < 0 THEN 8 ELSE 0)
ZoneValid(o) == o \in Octets /\ o \div 16 <= 9
ZoneDecode(o) == LET m == (o % 8) * 10 + o \div 16 IN IF (o \div 8) % 2 = 1 THEN -m ELSE m
\* daylight saving: adjustment 0, 1 or 2 hours, signalled in its own IE (TS 24.008 10.5.3.12) and
\* contained in the local time zone
DstRange == 0..2
EffectiveZone(q, dst) == q + 4 * dst
ZoneLaw(q, dst) ==
  LET e == EffectiveZone(q, dst) IN
  e \in ZoneRange => (ZoneValid(ZoneEncode(e)) /\ ZoneDecode(ZoneEncode(e)) = e)

\* text form used by the library's API: sign, HH, ":", MM, then "+1"/"+2" for daylight saving.
\* Text is a sequence of code points.
Digit(n) == 48 + n
TwoDigits(n) == <<Digit(n \div 10), Digit(n % 10)>>
ZoneText(q) == <<(IF q < 0 THEN 45 ELSE 43)>> \o TwoDigits(Abs(q) \div 4) \o <<58>> \o TwoDigits((Abs(q) % 4) * 15)
DstText(dst) == IF dst = 0 THEN <<>> ELSE <<43, Digit(dst)>>
ZoneDstText(q, dst) == ZoneText(q) \o DstText(dst)

(***************************** time stamp **********************************)
\* each field: two BCD digits, semi-octets swapped (first digit in the low nibble)
SwapBcd(n) == (n % 10) * 16 + n \div 10
UnswapBcd(o) == (o % 16) * 10 + o \div 16
BcdValid(o) == o % 16 <= 9 /\ o \div 16 <= 9

IsLeap(y) == (y % 4 = 0 /\ y % 100 # 0) \/ y % 400 = 0
DaysInMonth(y, m) == CASE m \in {1, 3, 5, 7, 8, 10, 12} -> 31 [] m \in {4, 6, 9, 11} -> 30
                       [] OTHER -> IF IsLeap(y) THEN 29 ELSE 28
ValidStamp(s) == /\ s.y \in 2000..2099 /\ s.mo \in 1..12 /\ s.d \in 1..DaysInMonth(s.y, s.mo)
                 /\ s.h \in 0..23 /\ s.mi \in 0..59 /\ s.s \in 0..59 /\ s.q \in ZoneRange

StampEncode(s) == <<SwapBcd(s.y % 100), SwapBcd(s.mo), SwapBcd(s.d), SwapBcd(s.h), SwapBcd(s.mi),
                    SwapBcd(s.s), ZoneEncode(s.q)>>
StampWellFormed(o) == Len(o) = 7 /\ (\A i \in 1..6 : o[i] \in Octets /\ BcdValid(o[i])) /\ ZoneValid(o[7])
StampDecode(o) == [y |-> 2000 + UnswapBcd(o[1]), mo |-> UnswapBcd(o[2]), d |-> UnswapBcd(o[3]),
                   h |-> UnswapBcd(o[4]), mi |-> UnswapBcd(o[5]), s |-> UnswapBcd(o[6]), q |-> ZoneDecode(o[7])]
StampLaw(s) == StampWellFormed(StampEncode(s)) /\ StampDecode(StampEncode(s)) = s

\* the instant denoted by a stamp: the fields are local time at q quarter hours east of UTC.
\* Days are counted from 1970-01-01 (proleptic Gregorian), the instant is <<day, second of day>> in UTC
\* (two components: seconds since 1970 do not fit TLC's 32-bit integers after 2038).
DaysBeforeYear(y) == LET p == y - 1 IN 365 * p + p \div 4 - p \div 100 + p \div 400
RECURSIVE DaysBeforeMonth(_, _)
DaysBeforeMonth(y, m) == IF m = 1 THEN 0 ELSE DaysBeforeMonth(y, m - 1) + DaysInMonth(y, m - 1)
DaysFromCivil(y, m, d) == DaysBeforeYear(y) + DaysBeforeMonth(y, m) + (d - 1) - DaysBeforeYear(1970)
FloorDiv(a, b) == IF a >= 0 THEN a \div b ELSE -((-a + b - 1) \div b)     \* b > 0
Instant(s) ==
  LET local == s.h * 3600 + s.mi * 60 + s.s - s.q * 900
      carry == FloorDiv(local, 86400)
  IN <<DaysFromCivil(s.y, s.mo, s.d) + carry, local - carry * 86400>>
\* inverse of DaysFromCivil, defined independently (year search, then month search)
CivilFromDays(n) ==
  LET y == CHOOSE yy \in 1969..2101 : DaysFromCivil(yy, 1, 1) <= n /\ n < DaysFromCivil(yy + 1, 1, 1)
      m == CHOOSE mm \in 1..12 : /\ DaysFromCivil(y, mm, 1) <= n
                                 /\ n < DaysFromCivil(y, mm, 1) + DaysInMonth(y, mm)
  IN <<y, m, n - DaysFromCivil(y, m, 1) + 1>>
CalendarLaw(n) == LET c == CivilFromDays(n) IN
  /\ c[2] \in 1..12 /\ c[3] \in 1..DaysInMonth(c[1], c[2])
  /\ DaysFromCivil(c[1], c[2], c[3]) = n
  /\ (n + 4) % 7 = (DaysFromCivil(c[1], c[2], c[3]) + 4) % 7
\* moving the zone and the local clock together leaves the instant unchanged
ZoneShiftLaw(s) == s.q < 79 /\ s.mi < 45 => Instant([s EXCEPT !.q = s.q + 1, !.mi = s.mi + 15]) = Instant(s)

(***************************** GSM 7-bit packing ***************************)
Septets == 0..127
\* TS 23.038 6.1.2.1.1: the septets are laid end to end, least significant bit first, into octets;
\* n septets need ceil(7n/8) octets, the unused high bits of the last octet are spare (zero here).
PackedLen(n) == (7 * n + 7) \div 8
SpareBits(n) == (8 - ((7 * n) % 8)) % 8

\* Packing, shift formulation (octet j, 0-based, takes the high part of septet j + j div 7 ... ):
\* octet j holds the top (7 - r) bits of septet a = j + j div 7 shifted down by r = j mod 7,
\* and the low (r + 1) bits of the next septet in its high bits.
SeptetAt(name, i) == IF i + 1 <= Len(name) THEN name[i + 1] ELSE 0      \* 0-based
PackOctet(name, j) ==
  LET r == j % 7
      a == j + j \div 7
  IN (SeptetAt(name, a) \div Pow2(r) + (SeptetAt(name, a + 1) % Pow2(r + 1)) * Pow2(7 - r)) % 256
RECURSIVE PackFrom(_, _, _)
PackFrom(name, j, n) == IF j = n THEN <<>> ELSE <<PackOctet(name, j)>> \o PackFrom(name, j + 1, n)
Pack7(name) == PackFrom(name, 0, PackedLen(Len(name)))

\* Unpacking, bit formulation: bit k of the stream is bit (k mod 8) of octet k div 8.
StreamBit(octets, k) == (octets[k \div 8 + 1] \div Pow2(k % 8)) % 2
UnpackSeptet(octets, i) ==
  StreamBit(octets, 7 * i) + 2 * StreamBit(octets, 7 * i + 1) + 4 * StreamBit(octets, 7 * i + 2)
  + 8 * StreamBit(octets, 7 * i + 3) + 16 * StreamBit(octets, 7 * i + 4)
  + 32 * StreamBit(octets, 7 * i + 5) + 64 * StreamBit(octets, 7 * i + 6)
\* number of characters a receiver derives from the octet count and the spare-bit field
UnpackCount(nOctets, spare) == (8 * nOctets - spare) \div 7
UnpackExact(nOctets, spare) == 8 * nOctets - spare >= 0 /\ (8 * nOctets - spare) % 7 = 0
RECURSIVE UnpackFrom(_, _, _)
UnpackFrom(octets, i, n) == IF i = n THEN <<>> ELSE <<UnpackSeptet(octets, i)>> \o UnpackFrom(octets, i + 1, n)
Unpack7(octets, spare) == UnpackFrom(octets, 0, UnpackCount(Len(octets), spare))

NameLaw(name) ==
  LET p == Pack7(name)
      sp == SpareBits(Len(name))
  IN /\ Len(p) = PackedLen(Len(name))
     /\ sp \in 0..7
     /\ UnpackExact(Len(p), sp)
     /\ Unpack7(p, sp) = name
     \* spare bits of the last octet are zero
     /\ Len(p) > 0 => p[Len(p)] < Pow2(8 - sp)

\* network name IE contents (TS 24.008 10.5.3.5a): octet 1 = ext(1) | coding scheme(3) | add CI(1) | spare bits(3)
NameHeader(n) == 128 + 0 * 16 + 0 * 8 + SpareBits(n)
NameContents(name) == <<NameHeader(Len(name))>> \o Pack7(name)
\* what the property requires of contents produced for `name`: GSM 7-bit coding scheme, the
\* right spare-bit count, and unpacking of the text string returns the name
NameOK(name, contents) ==
  /\ Len(contents) >= 1
  /\ (contents[1] \div 16) % 8 = 0
  /\ contents[1] % 8 = SpareBits(Len(name))
  /\ UnpackExact(Len(contents) - 1, contents[1] % 8)
  /\ Unpack7(Tail(contents), contents[1] % 8) = name

\* Characters whose ASCII code is also their code in the GSM 7-bit default alphabet: for these "unpacking returns the
\* name" has one reading.  The converters take the octets of the name as septets, so every other code 0..127 is a
\* character of the alphabet too (code 0 is COMMERCIAL AT); for those the verdict allows either reading where the ASCII
\* character has a code of its own in the basic table, and states no value where it has none - but a character is a
\* septet under every reading, so the COUNT of septets, the spare bits and every other character are required as always.
AsciiGsmSame == {10, 13} \cup (32..35) \cup (37..63) \cup (65..90) \cup (97..122)
AsciiToGsmOther == [c \in {36, 64, 95} |-> CASE c = 36 -> 2 [] c = 64 -> 0 [] c = 95 -> 17]
NoStatedValue == (0..9) \cup {11, 12} \cup (14..31) \cup {127}
SeptetAllowed(c, u) ==
  IF c \in AsciiGsmSame THEN u = c
  ELSE IF c \in DOMAIN AsciiToGsmOther THEN u \in {c, AsciiToGsmOther[c]}
  ELSE IF c \in NoStatedValue THEN u \in Septets
  ELSE u = c
NameOKAny(name, contents) ==
  /\ Len(contents) >= 1
  /\ (contents[1] \div 16) % 8 = 0
  /\ contents[1] % 8 = SpareBits(Len(name))
  /\ UnpackExact(Len(contents) - 1, contents[1] % 8)
  /\ LET u == Unpack7(Tail(contents), contents[1] % 8)
     IN Len(u) = Len(name) /\ \A i \in 1..Len(name) : SeptetAllowed(name[i], u[i])
=============================================================================
