---------------------------- MODULE HelperObject ----------------------------
(* C14, values that are reused.  An information-element value (nasType.MobileIdentity5GS, DNN,
   RequestedNSSAI) holds contents; the contents are replaced (through the setters, or by assigning the
   exported Len / Buffer fields as the library's own tests and callers do) and read through getters.
   What a getter returns is a function of the CURRENT contents only - never of what the value held or
   was asked before.  The state machine below says exactly that; stage A checks it on small pools and
   the trace specification replays recorded histories of real values against it. *)
EXTENDS Helpers

ObjKinds == {"MobileIdentity5GS", "DNN", "RequestedNSSAI"}
GettersOf(kind) ==
  CASE kind = "MobileIdentity5GS" -> GetterNames
    [] kind = "DNN" -> {"DNN.GetDNN"}
    [] kind = "RequestedNSSAI" -> {"RequestedNssaiToModels"}
SetModes == {"buffer", "setters"}      \* assign Len and Buffer / SetLen + Set...Contents

VARIABLES kind, contents, last
ovars == <<kind, contents, last>>

Set(pool) == \E c \in pool, m \in SetModes :
  /\ contents' = c
  /\ last' = [op |-> "Set", g |-> m, cls |-> ""]
  /\ UNCHANGED kind
Get == \E g \in GettersOf(kind) :
  /\ last' = [op |-> "Get", g |-> g, cls |-> ByteClass(g, contents)]
  /\ UNCHANGED <<kind, contents>>

\* ---- pools of contents, from the layouts of TS 24.501 9.11.3.4 / 9.11.2.1A / 9.11.3.37
Rep(x, k) == [i \in 1..k |-> x]
WellFormedIds ==
  {<<1, 2, 248, 57, 240, 255, 0, 0, 0, 0, 0, 241>>,            \* SUCI, IMSI format, null scheme
   <<1, 2, 248, 57, 33, 67, 1, 5, 170, 187, 204>>,             \* SUCI, IMSI format, profile A
   <<17, 97, 64, 98>>,                                         \* SUCI, NAI format
   <<242, 2, 248, 57, 202, 254, 0, 0, 0, 0, 1>>,               \* 5G-GUTI
   <<75, 9, 81, 36, 48, 50, 87, 129>>,                         \* IMEI (odd number of digits)
   <<69, 9, 81, 36, 48, 50, 87, 129, 247>>,                    \* IMEISV
   <<244, 254, 0, 0, 0, 0, 1>>}                                \* 5G-S-TMSI
ShortIds == {<<>>, <<0>>, <<1>>, <<17>>, <<242>>, <<244>>, <<1, 2, 248>>, <<1, 2, 248, 57, 240, 255, 0, 0>>,
             <<242, 2, 248, 57, 202, 254, 0, 0, 0, 0>>, <<244, 254, 0>>}
DnnPool == {<<>>, <<0>>, <<3, 97, 98, 99>>, <<8, 105, 110, 116, 101, 114, 110, 101, 116>>, <<3, 97, 98, 99, 2, 100, 101>>,
            <<5, 97>>, <<255>>}
NssaiPool == {<<>>, <<0>>, <<1, 1>>, <<4, 1, 0, 0, 1>>, <<1, 1, 2, 1, 1>>, <<2, 1>>, <<9, 1, 1>>,
              <<1, 1, 1, 2, 1, 3, 1, 4, 1, 5, 1, 6, 1, 7, 1, 8, 1, 9, 1, 10>>}
TinyPei == {<<3>>, <<13>>}          \* type octet with the first digit only: a (degenerate) value
PoolOf(k) == CASE k = "MobileIdentity5GS" -> WellFormedIds \cup ShortIds \cup TinyPei [] k = "DNN" -> DnnPool [] k = "RequestedNSSAI" -> NssaiPool

OInit == kind \in ObjKinds /\ contents = <<>> /\ last = [op |-> "New", g |-> "", cls |-> ""]
ONext == Set(PoolOf(kind)) \/ Get
OSpec == OInit /\ [][ONext]_ovars

\* laws
GetIsFunctionOfContents == last.op = "Get" => last.cls = ByteClass(last.g, contents) /\ last.cls \in Classes
GetKeepsContents == [][last'.op = "Get" => contents' = contents]_ovars
\* the pools are what their names say
PoolsSane ==
  /\ \A c \in WellFormedIds : GetterClass("GetMobileIdentity", c) = "val"
  /\ \A c \in ShortIds : GetterClass("GetMobileIdentity", c) \in {"err", "empty"}
=============================================================================
