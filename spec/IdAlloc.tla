---------------------------- MODULE IdAlloc ----------------------------
(* C20 - the PROPERTY: an allocator of identifiers over a configured range [lo, hi].
   Abstract and nondeterministic: any free identifier may be returned, so every correct
   scan strategy refines it.  Plain allocation may fail only when every identifier is live;
   allocation restricted to a sub-range may fail at will; Free makes an id allocatable again. *)
EXTENDS Integers, FiniteSets
VARIABLES lo, hi, live
avars == <<lo, hi, live>>

TypeOK == live \subseteq lo..hi

New(a, b)  == lo' = a /\ hi' = b /\ live' = {}
Alloc(id)  == id \in lo..hi /\ id \notin live /\ live' = live \cup {id} /\ UNCHANGED <<lo, hi>>
AllocFail  == live = lo..hi /\ UNCHANGED avars
RangeFail  == UNCHANGED avars
Free(id)   == live' = live \ {id} /\ UNCHANGED <<lo, hi>>

ANext == (\E id \in lo..hi : Alloc(id)) \/ AllocFail \/ RangeFail \/ (\E id \in (lo-2)..(hi+2) : Free(id))
AInit == live = {} /\ lo \in Int /\ hi \in Int
ASpec == live = {} /\ [][ANext]_avars
=========================================================================
