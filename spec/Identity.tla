------------------------------ MODULE Identity ------------------------------
(* C12 - subscriber and network identities, wire <-> text.

   Written from TS 24.008 10.5.1.13 (PLMN digit order), TS 23.003 2.10.1 (AMF identifier =
   region(8) || set(10) || pointer(6); 5G-GUTI; 5G-S-TMSI), TS 24.501 9.11.3.4 (5GS mobile identity:
   SUCI, 5G-GUTI, IMEI, 5G-S-TMSI, IMEISV layouts), TS 23.003 2.2B / TS 29.571 (text of a SUCI,
   of a PEI, of an AMF id) - as summarised in DESIGN.md Appendix A.  Nothing here is transcribed
   from the Go code.

   Conventions
     * an octet string is a sequence of 0..255, a text is a sequence of Unicode code points;
     * every identity has an ABSTRACT VALUE (a record of digits / numbers) and four operators,
       each written on its own:  XToWire(v), XFromWire(o), XToText(v), XFromText(t);
       the From-operators return [ok |-> BOOLEAN, v |-> value]; ok = FALSE means "not a valid
       identity of this kind" (v is then a dummy and must not be inspected);
     * wire -> text is  XToText(XFromWire(o).v),  text -> wire is  XToWire(XFromText(t).v).
   Stage A (MC_C12) checks that the From- and To- operators are mutually inverse on enumerated
   domains, that invalid texts are rejected, and pins the layouts to published examples. *)
EXTENDS Integers, Sequences, FiniteSets

\* ------------------------------------------------------------------ text primitives
DigitCp(d)   == 48 + d                                   \* '0'..'9'
HexCp(n)     == IF n < 10 THEN 48 + n ELSE 87 + n        \* lower case 'a'..'f' (canonical text)
IsDigitCp(c) == c \in 48..57
IsHexCp(c)   == (c \in 48..57) \/ (c \in 97..102) \/ (c \in 65..70)
HexVal(c)    == IF c \in 48..57 THEN c - 48 ELSE IF c \in 97..102 THEN c - 87 ELSE c - 55
AllDigitCp(t) == \A i \in 1..Len(t) : IsDigitCp(t[i])
AllHexCp(t)   == \A i \in 1..Len(t) : IsHexCp(t[i])
IsDigitSeq(ds) == \A i \in 1..Len(ds) : ds[i] \in 0..9
IsOctetSeq(os) == \A i \in 1..Len(os) : os[i] \in 0..255

Hi(o) == o \div 16
Lo(o) == o % 16

DigitText(ds)  == [i \in 1..Len(ds) |-> DigitCp(ds[i])]
DigitsOf(t)    == [i \in 1..Len(t) |-> t[i] - 48]
HexText(os)    == [i \in 1..(2 * Len(os)) |-> HexCp(IF i % 2 = 1 THEN Hi(os[(i + 1) \div 2]) ELSE Lo(os[i \div 2]))]
HexOctets(t)   == [i \in 1..(Len(t) \div 2) |-> 16 * HexVal(t[2 * i - 1]) + HexVal(t[2 * i])]
LowerHex(t)    == [i \in 1..Len(t) |-> IF t[i] \in 65..70 THEN t[i] + 32 ELSE t[i]]

RECURSIVE DecText(_)
DecText(n) == IF n < 10 THEN <<DigitCp(n)>> ELSE Append(DecText(n \div 10), DigitCp(n % 10))
RECURSIVE DecVal(_)
DecVal(t) == IF Len(t) = 0 THEN 0 ELSE 10 * DecVal(SubSeq(t, 1, Len(t) - 1)) + (t[Len(t)] - 48)
\* canonical decimal numeral of at most k digits: no sign, no leading zero
IsDecText(t, k) == Len(t) \in 1..k /\ AllDigitCp(t) /\ (Len(t) > 1 => t[1] # 48)

RECURSIVE FirstAt(_, _, _)
FirstAt(t, sep, i) == IF i > Len(t) THEN 0 ELSE IF t[i] = sep THEN i ELSE FirstAt(t, sep, i + 1)
RECURSIVE SplitText(_, _)
SplitText(t, sep) ==          \* fields between separators; a text without separator is one field
  LET k == FirstAt(t, sep, 1) IN
  IF k = 0 THEN <<t>> ELSE <<SubSeq(t, 1, k - 1)>> \o SplitText(SubSeq(t, k + 1, Len(t)), sep)
RECURSIVE JoinText(_, _)
JoinText(fs, sep) == IF Len(fs) = 1 THEN fs[1] ELSE fs[1] \o <<sep>> \o JoinText(Tail(fs), sep)

Dash   == 45
T_suci == <<115, 117, 99, 105>>
T_nai  == <<110, 97, 105>>
T_imei == <<105, 109, 101, 105>>
T_imeisv == <<105, 109, 101, 105, 115, 118>>

\* ------------------------------------------------------------------ PLMN (TS 24.008 10.5.1.13)
\* value: [mcc |-> 3 digits, mnc |-> 2 or 3 digits], digit 1 the most significant
\* octet 1 = MCC digit 2 | MCC digit 1; octet 2 = MNC digit 3 | MCC digit 3; octet 3 = MNC digit 2 | MNC digit 1
\* (high nibble | low nibble); MNC digit 3 = 1111 when the MNC has two digits.
NoPlmn == [mcc |-> <<>>, mnc |-> <<>>]
PlmnOK(p) == Len(p.mcc) = 3 /\ Len(p.mnc) \in {2, 3} /\ IsDigitSeq(p.mcc) /\ IsDigitSeq(p.mnc)

PlmnToWire(p) == << 16 * p.mcc[2] + p.mcc[1],
                    16 * (IF Len(p.mnc) = 3 THEN p.mnc[3] ELSE 15) + p.mcc[3],
                    16 * p.mnc[2] + p.mnc[1] >>

PlmnFromWire(o) ==
  IF Len(o) # 3 THEN [ok |-> FALSE, v |-> NoPlmn] ELSE
  LET mcc1 == Lo(o[1])  mcc2 == Hi(o[1])  mcc3 == Lo(o[2])
      mnc3 == Hi(o[2])  mnc1 == Lo(o[3])  mnc2 == Hi(o[3])
  IN [ok |-> Len(o) = 3 /\ {mcc1, mcc2, mcc3, mnc1, mnc2} \subseteq 0..9 /\ mnc3 \in (0..9) \cup {15},
      v  |-> [mcc |-> <<mcc1, mcc2, mcc3>>, mnc |-> IF mnc3 = 15 THEN <<mnc1, mnc2>> ELSE <<mnc1, mnc2, mnc3>>]]

PlmnToText(p)  == DigitText(p.mcc \o p.mnc)            \* MCC then MNC, 5 or 6 characters
MccText(p)     == DigitText(p.mcc)
MncText(p)     == DigitText(p.mnc)
PlmnFromText(t) ==
  IF Len(t) \notin {5, 6} THEN [ok |-> FALSE, v |-> NoPlmn] ELSE
  [ok |-> AllDigitCp(t),
   v  |-> [mcc |-> DigitsOf(SubSeq(t, 1, 3)), mnc |-> DigitsOf(SubSeq(t, 4, Len(t)))]]
\* MCC and MNC given as two separate texts
PlmnFromTexts(tm, tn) ==
  [ok |-> Len(tm) = 3 /\ Len(tn) \in {2, 3} /\ AllDigitCp(tm) /\ AllDigitCp(tn),
   v  |-> [mcc |-> DigitsOf(tm), mnc |-> DigitsOf(tn)]]

\* ------------------------------------------------------------------ AMF identifier (TS 23.003 2.10.1)
\* value <<region, set, pointer>>, 8 + 10 + 6 bits, most significant first; text = 6 hex digits.
AmfOK(a) == a[1] \in 0..255 /\ a[2] \in 0..1023 /\ a[3] \in 0..63
AmfToWire(a)   == << a[1], a[2] \div 4, 64 * (a[2] % 4) + a[3] >>
AmfFromWire(o) == << o[1], 4 * o[2] + (o[3] \div 64), o[3] % 64 >>
AmfToText(a)   == HexText(AmfToWire(a))
AmfFromText(t) == IF Len(t) # 6 THEN [ok |-> FALSE, v |-> <<0, 0, 0>>]
                  ELSE [ok |-> AllHexCp(t), v |-> AmfFromWire(HexOctets(t))]
\* the same thing said with numbers: the 24-bit number is region * 2^16 + set * 2^6 + pointer
AmfNumber(a)   == 65536 * a[1] + 64 * a[2] + a[3]
WireNumber(o)  == 65536 * o[1] + 256 * o[2] + o[3]

\* ------------------------------------------------------------------ 5G-GUTI (TS 24.501 9.11.3.4, fig. 9.11.3.4.1)
\* value [plmn, amf, tmsi (4 octets)]; 11 octets: 1111 0 010 | PLMN | AMF id | 5G-TMSI
\* text = MCC MNC || 6 hex || 8 hex  (19 or 20 characters)
GutiOK(g) == PlmnOK(g.plmn) /\ AmfOK(g.amf) /\ Len(g.tmsi) = 4 /\ IsOctetSeq(g.tmsi)
GutiToWire(g)   == <<242>> \o PlmnToWire(g.plmn) \o AmfToWire(g.amf) \o g.tmsi
GutiFromWire(o) ==
  IF Len(o) # 11 THEN [ok |-> FALSE, v |-> [plmn |-> NoPlmn, amf |-> <<0, 0, 0>>, tmsi |-> <<>>]]
  ELSE LET p == PlmnFromWire(SubSeq(o, 2, 4))
       IN  [ok |-> o[1] = 242 /\ p.ok,
            v  |-> [plmn |-> p.v, amf |-> AmfFromWire(SubSeq(o, 5, 7)), tmsi |-> SubSeq(o, 8, 11)]]
GutiToText(g)   == PlmnToText(g.plmn) \o AmfToText(g.amf) \o HexText(g.tmsi)
GutiFromText(t) ==
  IF Len(t) \notin {19, 20} THEN [ok |-> FALSE, v |-> [plmn |-> NoPlmn, amf |-> <<0, 0, 0>>, tmsi |-> <<>>]]
  ELSE LET n == Len(t) - 14                      \* 5 or 6 PLMN digits
           p == PlmnFromText(SubSeq(t, 1, n))
           a == AmfFromText(SubSeq(t, n + 1, n + 6))
           m == SubSeq(t, n + 7, n + 14)
       IN  [ok |-> p.ok /\ a.ok /\ AllHexCp(m),
            v  |-> [plmn |-> p.v, amf |-> a.v, tmsi |-> HexOctets(m)]]

\* ------------------------------------------------------------------ 5G-S-TMSI (fig. 9.11.3.4.5)
\* value [set, pointer, tmsi]; 7 octets: 1111 0 100 | set(10) pointer(6) | 5G-TMSI;
\* text = 12 hex digits of <AMF set id><AMF pointer><5G-TMSI> (TS 23.003 2.11)
STmsiToWire(s)   == <<244, s.set \div 4, 64 * (s.set % 4) + s.pointer>> \o s.tmsi
STmsiFromWire(o) ==
  [ok |-> Len(o) = 7 /\ o[1] = 244,
   v  |-> IF Len(o) = 7 THEN [set |-> 4 * o[2] + (o[3] \div 64), pointer |-> o[3] % 64, tmsi |-> SubSeq(o, 4, 7)]
          ELSE [set |-> 0, pointer |-> 0, tmsi |-> <<>>]]
STmsiToText(s)   == HexText(<<s.set \div 4, 64 * (s.set % 4) + s.pointer>> \o s.tmsi)
STmsiFromText(t) ==
  [ok |-> Len(t) = 12 /\ AllHexCp(t),
   v  |-> IF Len(t) = 12 THEN LET o == HexOctets(t) IN [set |-> 4 * o[1] + (o[2] \div 64), pointer |-> o[2] % 64, tmsi |-> SubSeq(o, 3, 6)]
          ELSE [set |-> 0, pointer |-> 0, tmsi |-> <<>>]]

\* ------------------------------------------------------------------ BCD strings, low nibble first, 1111 filler
RECURSIVE BcdPack(_)
BcdPack(ds) == IF Len(ds) = 0 THEN <<>>
               ELSE IF Len(ds) = 1 THEN <<16 * 15 + ds[1]>>
               ELSE <<16 * ds[2] + ds[1]>> \o BcdPack(SubSeq(ds, 3, Len(ds)))
Nibbles(os) == [i \in 1..(2 * Len(os)) |-> IF i % 2 = 1 THEN Lo(os[(i + 1) \div 2]) ELSE Hi(os[i \div 2])]
\* digits up to an optional single trailing filler
BcdUnpack(os) ==
  LET ns == Nibbles(os)
      ds == IF Len(ns) > 0 /\ ns[Len(ns)] = 15 THEN SubSeq(ns, 1, Len(ns) - 1) ELSE ns
  IN [ok |-> IsDigitSeq(ds), v |-> ds]

\* ------------------------------------------------------------------ SUCI (fig. 9.11.3.4.3 / .4; TS 23.003 2.2B)
\* value [fmt, plmn, ri, scheme, pki, out]
\*   fmt 0 (IMSI): ri = 1..4 routing-indicator digits, scheme 0..15, pki 0..255,
\*                 out = MSIN digits for the null scheme (0), scheme-output octets otherwise
\*   fmt 1 (NAI) : out = the octets of the NAI; the other fields are unused (NoPlmn, <<>>, 0, 0)
\* wire (IMSI): 0 fmt(3) 0 001 | PLMN | routing indicator BCD, 4 nibbles, 1111 fill | 0000 scheme | pki | output
\* text (IMSI): suci-0-<mcc>-<mnc>-<ri>-<scheme, one hex digit>-<pki, decimal>-<MSIN digits | hex of the output>
\* text (NAI) : nai-1-<hex of the octets>                                      (Appendix A of DESIGN.md)
SuciOK(s) ==
  IF s.fmt = 1 THEN Len(s.out) >= 1 /\ IsOctetSeq(s.out)
  ELSE /\ s.fmt = 0 /\ PlmnOK(s.plmn) /\ Len(s.ri) \in 1..4 /\ IsDigitSeq(s.ri)
       /\ s.scheme \in 0..15 /\ s.pki \in 0..255 /\ Len(s.out) >= 1
       /\ IF s.scheme = 0 THEN IsDigitSeq(s.out) ELSE IsOctetSeq(s.out)
NoSuci == [fmt |-> 0, plmn |-> NoPlmn, ri |-> <<>>, scheme |-> 0, pki |-> 0, out |-> <<>>]
Nai(os) == [fmt |-> 1, plmn |-> NoPlmn, ri |-> <<>>, scheme |-> 0, pki |-> 0, out |-> os]

RiToWire(ri)   == LET d == ri \o [i \in 1..(4 - Len(ri)) |-> 15] IN <<16 * d[2] + d[1], 16 * d[4] + d[3]>>
RiFromWire(o)  ==         \* digits, then only fillers
  LET ns == Nibbles(o)
      n  == Cardinality({i \in 1..4 : \A j \in 1..i : ns[j] # 15})
  IN [ok |-> n >= 1 /\ IsDigitSeq(SubSeq(ns, 1, n)) /\ \A j \in (n + 1)..4 : ns[j] = 15,
      v  |-> SubSeq(ns, 1, n)]

SuciToWire(s) ==
  IF s.fmt = 1 THEN <<17>> \o s.out
  ELSE <<1>> \o PlmnToWire(s.plmn) \o RiToWire(s.ri) \o <<s.scheme, s.pki>>
       \o (IF s.scheme = 0 THEN BcdPack(s.out) ELSE s.out)
SuciFromWire(o) ==
  IF Len(o) >= 2 /\ o[1] = 17 THEN [ok |-> TRUE, v |-> Nai(SubSeq(o, 2, Len(o)))]
  ELSE IF Len(o) < 9 \/ o[1] # 1 THEN [ok |-> FALSE, v |-> NoSuci]
  ELSE LET p  == PlmnFromWire(SubSeq(o, 2, 4))
           r  == RiFromWire(SubSeq(o, 5, 6))
           so == SubSeq(o, 9, Len(o))
           m  == BcdUnpack(so)
       IN  [ok |-> p.ok /\ r.ok /\ o[7] \in 0..15 /\ (o[7] = 0 => (m.ok /\ Len(m.v) >= 1)),
            v  |-> [fmt |-> 0, plmn |-> p.v, ri |-> r.v, scheme |-> o[7], pki |-> o[8],
                    out |-> IF o[7] = 0 THEN m.v ELSE so]]
SuciToText(s) ==
  IF s.fmt = 1 THEN JoinText(<<T_nai, <<49>>, HexText(s.out)>>, Dash)
  ELSE JoinText(<<T_suci, <<48>>, MccText(s.plmn), MncText(s.plmn), DigitText(s.ri), <<HexCp(s.scheme)>>,
                  DecText(s.pki), IF s.scheme = 0 THEN DigitText(s.out) ELSE HexText(s.out)>>, Dash)
SuciFromText(t) ==
  LET f == SplitText(t, Dash) IN
  IF Len(f) = 3 /\ f[1] = T_nai
    THEN [ok |-> f[2] = <<49>> /\ Len(f[3]) >= 2 /\ Len(f[3]) % 2 = 0 /\ AllHexCp(f[3]),
          v  |-> Nai(HexOctets(f[3]))]
  ELSE IF Len(f) # 8 THEN [ok |-> FALSE, v |-> NoSuci]
  ELSE LET p    == PlmnFromTexts(f[3], f[4])
           null == f[6] = <<48>>
       IN [ok |-> /\ f[1] = T_suci /\ f[2] = <<48>> /\ p.ok
                  /\ Len(f[5]) \in 1..4 /\ AllDigitCp(f[5])
                  /\ Len(f[6]) = 1 /\ AllHexCp(f[6])
                  /\ IsDecText(f[7], 3) /\ DecVal(f[7]) <= 255
                  /\ Len(f[8]) >= 1
                  /\ IF null THEN AllDigitCp(f[8]) ELSE (Len(f[8]) % 2 = 0 /\ AllHexCp(f[8])),
           v  |-> [fmt |-> 0, plmn |-> p.v, ri |-> DigitsOf(f[5]), scheme |-> IF Len(f[6]) = 1 THEN HexVal(f[6][1]) ELSE 0, pki |-> DecVal(f[7]),
                   out |-> IF null THEN DigitsOf(f[8]) ELSE HexOctets(f[8])]]

\* ------------------------------------------------------------------ PEI: IMEI / IMEISV (fig. 9.11.3.4.6)
\* value [kind |-> "imei" | "imeisv", digits |-> 15 | 16 digits]
\* octet 1 = digit 1 | odd/even (1 = odd number of digits) | type (011 IMEI, 101 IMEISV);
\* octet k+1 = digit 2k+1 | digit 2k; with an even number of digits the last high nibble is 1111.
\* text: imei-<15 digits> / imeisv-<16 digits>  (TS 29.571 Pei)
PeiType(kind)  == IF kind = "imei" THEN 3 ELSE 5
PeiDigits(kind) == IF kind = "imei" THEN 15 ELSE 16
PeiOK(p) == p.kind \in {"imei", "imeisv"} /\ Len(p.digits) = PeiDigits(p.kind) /\ IsDigitSeq(p.digits)
\* packing of any non-empty digit string (the identity layouts fix the count, the packing rule does not)
PeiPack(type, ds) == <<16 * ds[1] + 8 * (Len(ds) % 2) + type>> \o
                     [k \in 1..(Len(ds) \div 2) |-> 16 * (IF 2 * k + 1 <= Len(ds) THEN ds[2 * k + 1] ELSE 15) + ds[2 * k]]
PeiUnpack(o) ==
  LET ns  == <<Hi(o[1])>> \o Nibbles(SubSeq(o, 2, Len(o)))
      odd == (o[1] \div 8) % 2 = 1
      ds  == IF odd THEN ns ELSE SubSeq(ns, 1, Len(ns) - 1)
  IN [ok |-> IsDigitSeq(ds) /\ (~odd => (Len(ns) >= 2 /\ ns[Len(ns)] = 15)), v |-> ds]
PeiToWire(p)   == PeiPack(PeiType(p.kind), p.digits)
PeiFromWire(o) ==
  IF Len(o) = 0 \/ (o[1] % 8) \notin {3, 5} THEN [ok |-> FALSE, v |-> [kind |-> "imei", digits |-> <<>>]]
  ELSE LET kind == IF o[1] % 8 = 3 THEN "imei" ELSE "imeisv"
           u == PeiUnpack(o)
       IN [ok |-> u.ok /\ Len(u.v) = PeiDigits(kind), v |-> [kind |-> kind, digits |-> u.v]]
PeiToText(p)   == (IF p.kind = "imei" THEN T_imei ELSE T_imeisv) \o <<Dash>> \o DigitText(p.digits)
PeiFromText(t) ==
  LET f == SplitText(t, Dash) IN
  IF Len(f) # 2 \/ f[1] \notin {T_imei, T_imeisv} THEN [ok |-> FALSE, v |-> [kind |-> "imei", digits |-> <<>>]]
  ELSE LET kind == IF f[1] = T_imei THEN "imei" ELSE "imeisv"
       IN [ok |-> Len(f[2]) = PeiDigits(kind) /\ AllDigitCp(f[2]), v |-> [kind |-> kind, digits |-> DigitsOf(f[2])]]

\* ------------------------------------------------------------------ 5GS mobile identity: type of identity (table 9.11.3.4.1)
IdentityType(o) == o[1] % 8
IdentityTypeName(k) == CASE k = 1 -> <<83, 85, 67, 73>>                                    \* SUCI
                         [] k = 2 -> <<53, 71, 45, 71, 85, 84, 73>>                        \* 5G-GUTI
                         [] k = 3 -> <<73, 77, 69, 73>>                                    \* IMEI
                         [] k = 4 -> <<53, 71, 45, 83, 45, 84, 77, 83, 73>>                \* 5G-S-TMSI
                         [] k = 5 -> <<73, 77, 69, 73, 83, 86>>                            \* IMEISV
                         [] OTHER -> <<>>
=============================================================================
