-------------------------------- MODULE Gf64 --------------------------------
(* GF(2^64) arithmetic of UIA2 / 128-EIA1 (ETSI/SAGE UEA2&UIA2 Document 1, 4.3: MUL64x, MUL64xPOW,
   MUL64 with c = 0x1b, i.e. the field GF(2)[x]/(x^64 + x^4 + x^3 + x + 1)) and the polynomial
   evaluation of 4.4 (EVAL_M).  Interface: elements are 8 octets, most significant first.
   Internally an element is four 16-bit limbs <<l1,l2,l3,l4>> (TLC integers are 32-bit signed). *)
EXTENDS CryptoBits
LOCAL INSTANCE SequencesExt       \* FoldLeft
Z8 == Zeros(8)
Limbs(v) == <<v[1] * 256 + v[2], v[3] * 256 + v[4], v[5] * 256 + v[6], v[7] * 256 + v[8]>>
Octets(l) == <<l[1] \div 256, l[1] % 256, l[2] \div 256, l[2] % 256, l[3] \div 256, l[3] % 256, l[4] \div 256, l[4] % 256>>
ZL == <<0, 0, 0, 0>>
XorL(a, b) == <<a[1] ^^ b[1], a[2] ^^ b[2], a[3] ^^ b[3], a[4] ^^ b[4]>>
\* MUL64x: shift left by one bit; if the top bit was set, xor c = 0x1b
MulXL(v) == LET c == IF v[1] >= 32768 THEN 27 ELSE 0 IN
            << ((v[1] * 2) % 65536) + (v[2] \div 32768), ((v[2] * 2) % 65536) + (v[3] \div 32768),
               ((v[3] * 2) % 65536) + (v[4] \div 32768), ((v[4] * 2) % 65536) ^^ c >>
BitL(p, i) == (p[(i \div 16) + 1] \div (2^(15 - (i % 16)))) % 2          \* bit i of p, 0 = most significant
MulX64(v) == Octets(MulXL(Limbs(v)))
RECURSIVE MulXPowL(_,_)
MulXPowL(v, i) == IF i = 0 THEN v ELSE MulXL(MulXPowL(v, i - 1))
MulXPow64(v, i) == Octets(MulXPowL(Limbs(v), i))                        \* MUL64xPOW
\* MUL64(V, P) = xor over the set bits i of P (bit 0 least significant) of MUL64xPOW(V, i): Horner form from the top bit
RECURSIVE HornerL(_,_,_,_)
HornerL(v, p, i, acc) == IF i = 64 THEN acc
                         ELSE LET a == MulXL(acc) IN HornerL(v, p, i + 1, IF BitL(p, i) = 1 THEN XorL(a, v) ELSE a)
MulL(v, p) == HornerL(v, p, 0, ZL)
Mul64(v, p) == Octets(MulL(Limbs(v), Limbs(p)))
\* the definition exactly as written in the standard (slow; used to validate Mul64 in stage A)
Mul64Def(v, p) == LET R[i \in 0..64] == IF i = 0 THEN Z8
                                         ELSE IF BitOf(p, 64 - i) = 1 THEN XorS(R[i-1], MulXPow64(v, i - 1)) ELSE R[i-1]
                  IN R[64]
\* j-th 64-bit block (0-based) of a message of nbits bits, zero padded
Block(msg, nbits, j) == SubSeq([i \in 1..8 |-> IF 8*j + i <= NBytes(nbits) THEN msg[8*j + i] ELSE 0], 1, 8)
\* EVAL_M: ev := (ev xor M_j) * P over the n blocks
EvalBlocks(msg, nbits, P, j, n, ev) ==
  LET p == Limbs(P) IN
  Octets(FoldLeft(LAMBDA a, t : MulL(XorL(a, Limbs(Block(msg, nbits, j + t - 1))), p), Limbs(ev), Idx(n - j)))
=============================================================================
