-------------------------------- MODULE Gf64 --------------------------------
(* GF(2^64) arithmetic of UIA2 / 128-EIA1 (ETSI/SAGE UEA2&UIA2 Document 1, 4.3: MUL64x, MUL64xPOW,
   MUL64 with c = 0x1b, i.e. the field GF(2)[x]/(x^64 + x^4 + x^3 + x + 1)) and the polynomial
   evaluation of 4.4 (EVAL_M).  Elements are 8 octets, most significant first. *)
EXTENDS CryptoBits
Z8 == Zeros(8)
MulX64(v) == LET sh == SubSeq([i \in 1..8 |-> ((v[i] * 2) % 256) + (IF i < 8 THEN v[i+1] \div 128 ELSE 0)], 1, 8) IN
             IF v[1] >= 128 THEN [sh EXCEPT ![8] = sh[8] ^^ 27] ELSE sh
RECURSIVE MulXPow64(_,_)
MulXPow64(v, i) == IF i = 0 THEN v ELSE MulX64(MulXPow64(v, i - 1))
\* MUL64(V, P) = xor over the set bits i of P (bit 0 least significant) of MUL64xPOW(V, i): Horner form from the top bit
RECURSIVE Horner(_,_,_,_)
Horner(v, p, i, acc) == IF i = 64 THEN acc
                        ELSE LET a == MulX64(acc) IN Horner(v, p, i + 1, IF BitOf(p, i) = 1 THEN XorS(a, v) ELSE a)
Mul64(v, p) == Horner(v, p, 0, Z8)
\* the definition exactly as written in the standard (slow; used to validate Mul64 in stage A)
Mul64Def(v, p) == LET R[i \in 0..64] == IF i = 0 THEN Z8
                                         ELSE IF BitOf(p, 64 - i) = 1 THEN XorS(R[i-1], MulXPow64(v, i - 1)) ELSE R[i-1]
                  IN R[64]
\* j-th 64-bit block (0-based) of a message of nbits bits, zero padded
Block(msg, nbits, j) == SubSeq([i \in 1..8 |-> IF 8*j + i <= NBytes(nbits) THEN msg[8*j + i] ELSE 0], 1, 8)
RECURSIVE EvalBlocks(_,_,_,_,_,_)
EvalBlocks(msg, nbits, P, j, n, ev) == IF j = n THEN ev ELSE EvalBlocks(msg, nbits, P, j + 1, n, Mul64(XorS(ev, Block(msg, nbits, j)), P))
=============================================================================
