-------------------------- MODULE IdAllocImpl --------------------------
(* C20 - the allocator AS IMPLEMENTED in uePolicyContainer/UPSC_Generator.go:
   a cyclic scan over offsets 0..range-1 starting at `offset`, a map of used offsets,
   Go's truncated %, the `== offsetBegin` / `== max` stop conditions of the two scans.
   One action per public call (the library is sequential; the call is the critical section).
   `last` records the result of the call so the listed properties are state invariants. *)
EXTENDS Integers, FiniteSets, Sequences, TLC
CONSTANTS MinLo, MaxLo, MaxSize, ArgSlack
VARIABLES minv, maxv, offset, used, last
ivars == <<minv, maxv, offset, used, last>>

Range == maxv - minv + 1
GoMod(a, b) == IF a >= 0 THEN a % b ELSE -((-a) % b)      \* Go's % truncates toward zero
\* setOffset: the argument reduced into 0..Range-1 (non-negative also for a negative argument)
SetOff(a) == LET m == GoMod(a, Range) IN IF m < 0 THEN m + Range ELSE m
LiveOf(u) == {o + minv : o \in u}

\* the scan loop of Allocate / Allocate_inRange.  o: current offset, b: offsetBegin.
RECURSIVE Scan(_, _, _, _, _)
Scan(o, b, stopAtMax, mx, fuel) ==
  IF o \notin used THEN [ok |-> TRUE, off |-> o]
  ELSE LET o2 == GoMod(o + 1, Range) IN
       IF o2 = b \/ (stopAtMax /\ o2 = mx) THEN [ok |-> FALSE, off |-> o2]
       ELSE IF fuel = 0 THEN [ok |-> FALSE, off |-> -999]       \* would be a hang in the code
       ELSE Scan(o2, b, stopAtMax, mx, fuel - 1)

Take(r, opname, a, b) ==
  IF r.ok THEN /\ used' = used \cup {r.off}
               /\ offset' = GoMod(r.off + 1, Range)
               /\ last' = [op |-> opname, ok |-> TRUE, id |-> r.off + minv, pre |-> LiveOf(used), a |-> a, b |-> b, poff |-> offset]
          ELSE /\ offset' = r.off /\ UNCHANGED used
               /\ last' = [op |-> opname, ok |-> FALSE, id |-> 0, pre |-> LiveOf(used), a |-> a, b |-> b, poff |-> offset]

Allocate == /\ Take(Scan(offset, offset, FALSE, 0, 2 * Range + 2), "Allocate", 0, 0)
            /\ UNCHANGED <<minv, maxv>>
AllocateInRange(a, b) ==
            /\ Take(Scan(SetOff(a), offset, TRUE, b, 2 * Range + 2), "AllocateInRange", a, b)
            /\ UNCHANGED <<minv, maxv>>
FreeID(id) == /\ IF id < minv \/ id > maxv THEN UNCHANGED used ELSE used' = used \ {id - minv}
              /\ last' = [op |-> "FreeID", ok |-> TRUE, id |-> id, pre |-> LiveOf(used), a |-> 0, b |-> 0, poff |-> offset]
              /\ UNCHANGED <<minv, maxv, offset>>

Init == /\ minv \in MinLo..MaxLo
        /\ \E size \in 1..MaxSize : maxv = minv + size - 1
        /\ offset = 0 /\ used = {}
        /\ last = [op |-> "New", ok |-> TRUE, id |-> 0, pre |-> {}, a |-> 0, b |-> 0, poff |-> 0]
Next == \/ Allocate
        \/ \E a \in (0 - ArgSlack)..(maxv + ArgSlack), b \in (0 - ArgSlack)..(maxv + ArgSlack) : AllocateInRange(a, b)
        \/ \E id \in (minv - 1)..(maxv + 1) : FreeID(id)
Spec == Init /\ [][Next]_ivars

\* ---- the listed properties, on the implementation-shaped model
IsAlloc == last.op \in {"Allocate", "AllocateInRange"}
InBounds         == (IsAlloc /\ last.ok) => last.id \in minv..maxv
Fresh            == (IsAlloc /\ last.ok) => last.id \notin last.pre
FailOnlyWhenFull == (last.op = "Allocate" /\ ~last.ok) => last.pre = minv..maxv
NoHang           == offset # -999
OffsetInRange    == offset \in 0..(Range - 1)
UsedInRange      == used \subseteq 0..(Range - 1)
\* a freed identifier is allocatable again: after FreeID(id) of an in-range id, an in-range
\* allocation starting at its offset returns exactly that id
FreedIsReusable  == (last.op = "FreeID" /\ last.id \in minv..maxv) =>
                       LET r == Scan(SetOff(last.id - minv), offset, TRUE, 0 - 99, 2 * Range + 2)
                       IN r.ok /\ r.off + minv = last.id

\* ---- refinement: the implementation is an IdAlloc
Abs == INSTANCE IdAlloc WITH lo <- minv, hi <- maxv, live <- LiveOf(used)
Refines == Abs!ASpec
========================================================================
