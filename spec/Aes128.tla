------------------------------- MODULE Aes128 -------------------------------
(* AES-128 encryption (FIPS-197: 5.1 cipher, 5.2 key expansion) and the CTR mode keystream
   of NIST SP 800-38A 6.5 with the standard incrementing function over the whole block. *)
EXTENDS CryptoBits, CryptoTables
LOCAL INSTANCE SequencesExt       \* FoldLeft
XT(b) == IF b >= 128 THEN ((b * 2) % 256) ^^ 27 ELSE b * 2          \* xtime
Sb(b) == SR[b + 1]
Rcon == <<1, 2, 4, 8, 16, 32, 64, 128, 27, 54>>
\* key schedule: 44 words of 4 octets
RECURSIVE Expand(_,_)
Expand(w, i) == IF i > 44 THEN w
   ELSE LET t == w[i-1]
            tt == IF (i-1) % 4 = 0 THEN << Sb(t[2]) ^^ Rcon[(i-1) \div 4], Sb(t[3]), Sb(t[4]), Sb(t[1]) >> ELSE t
        IN Expand(Append(w, XorS(w[i-4], tt)), i + 1)
KeyWords(k) == Expand(<< SubSeq(k, 1, 4), SubSeq(k, 5, 8), SubSeq(k, 9, 12), SubSeq(k, 13, 16) >>, 5)
RoundKey(w, r) == w[4*r+1] \o w[4*r+2] \o w[4*r+3] \o w[4*r+4]
\* state as 16 octets in input order (column-major)
SubBytes(s) == SubSeq([i \in 1..16 |-> Sb(s[i])], 1, 16)
ShiftRows(s) == SubSeq([i \in 1..16 |-> LET c == (i-1) \div 4 r == (i-1) % 4 IN s[((c + r) % 4) * 4 + r + 1]], 1, 16)
MixCol(a) == << (XT(a[1]) ^^ (XT(a[2]) ^^ a[2])) ^^ (a[3] ^^ a[4]),
                (a[1] ^^ XT(a[2])) ^^ ((XT(a[3]) ^^ a[3]) ^^ a[4]),
                (a[1] ^^ a[2]) ^^ (XT(a[3]) ^^ (XT(a[4]) ^^ a[4])),
                ((XT(a[1]) ^^ a[1]) ^^ a[2]) ^^ (a[3] ^^ XT(a[4])) >>
MixColumns(s) == MixCol(SubSeq(s, 1, 4)) \o MixCol(SubSeq(s, 5, 8)) \o MixCol(SubSeq(s, 9, 12)) \o MixCol(SubSeq(s, 13, 16))
RECURSIVE Rounds(_,_,_)
Rounds(s, w, r) == IF r = 10 THEN XorS(ShiftRows(SubBytes(s)), RoundKey(w, 10))
                   ELSE Rounds(XorS(MixColumns(ShiftRows(SubBytes(s))), RoundKey(w, r)), w, r + 1)
EncryptW(w, blk) == Rounds(XorS(blk, RoundKey(w, 0)), w, 1)
Encrypt(k, blk) == EncryptW(KeyWords(k), blk)
\* CTR: 128-bit big-endian increment
RECURSIVE Inc(_,_)
Inc(c, i) == IF i = 0 THEN c ELSE IF c[i] = 255 THEN Inc([c EXCEPT ![i] = 0], i - 1) ELSE [c EXCEPT ![i] = c[i] + 1]
CtrKS(w, ctr0, nblocks) ==
  FoldLeft(LAMBDA a, t : [ctr |-> Inc(a.ctr, 16), out |-> a.out \o EncryptW(w, a.ctr)], [ctr |-> ctr0, out |-> <<>>], Idx(nblocks)).out
CtrXor(k, ctr0, data) == LET n == Len(data)
                             ks == CtrKS(KeyWords(k), ctr0, (n + 15) \div 16)
                         IN SubSeq([i \in 1..n |-> data[i] ^^ ks[i]], 1, n)
=============================================================================
