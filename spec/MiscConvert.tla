---------------------------- MODULE MiscConvert ----------------------------
(* X02 - the remaining hand-written converters of free5gc/nas, specified from the standards.
   Pure module (no variables): the trace specification Trace_X02 uses it as the oracle, the
   model-checking modules MC_X02* check its own laws; the PCO list under construction as a state
   machine is PcoBuilder.tla (it uses the operators of section 1).

   1  PCO list builders        TS 24.008 10.5.6.3, Table 10.5.154 (container identifiers, contents)
   2  PDU session type         TS 24.501 9.11.4.11
   3  ngKSI                    TS 24.501 9.11.3.32
   4  DNN                      TS 23.003 9.1 / 9A, TS 24.501 9.11.2.1B (labels as in RFC 1035 3.1)
   5  UPU transparent cont.    TS 24.501 9.11.3.53A
   6  5G-S-TMSI text           TS 23.003 2.10.1, TS 24.501 9.11.3.4
   7  5GMM cause names         TS 24.501 9.11.3.2, Table 9.11.3.2.1 (Rel-15)
   8  message header octets    TS 24.501 9.2, 9.3, 9.5
   9  PLMN of a UE policy sublist / subresult: the operators of UePolicy.tla (TS 24.008 10.5.1.13)

   Text whose characters matter (hexadecimal text, DNN names) is a sequence of code points;
   enumerated names ("IPV4", "NATIVE") are TLA+ strings. *)
EXTENDS PcoGrammar, UePolicy

McBit(x, k) == (x \div (2 ^ k)) % 2
RECURSIVE McFlatten(_)
McFlatten(ss) == IF ss = << >> THEN << >> ELSE Head(ss) \o McFlatten(Tail(ss))
McBE16(n) == << n \div 256, n % 256 >>

(* ------------------------------------------------------------------ 1  PCO list builders
   Table 10.5.154, configuration protocol options list.  The builders of the library append
   "additional parameters" containers:
        MS -> network      0003H DNS Server IPv6 Address Request        contents empty
                           000AH IP address allocation via NAS signalling          empty
                           000DH DNS Server IPv4 Address Request                   empty
        network -> MS      0003H DNS Server IPv6 Address       one IPv6 address, 16 octets
                           000CH P-CSCF IPv4 Address           one IPv4 address,  4 octets
                           000DH DNS Server IPv4 Address       one IPv4 address,  4 octets
                           0010H IPv4 Link MTU                 2 octets, most significant first
   An IP argument is the octet sequence the API is given (Go net.IP): 4 octets = an IPv4 address,
   16 octets = an IPv6 address, of which 0^10 FF FF a b c d is the IPv4-mapped form of a.b.c.d
   (the form net.ParseIP returns for dotted text).  Any other length (nil included) is no address.
   A call either appends exactly one container and reports no error, or reports an error and
   leaves the list as it was.  An IPv4 builder takes both forms of an IPv4 address; an address
   of the other family or no address is an error.  Whether the IPv6 builder takes an IPv4-mapped
   address is not fixed here (it is syntactically an IPv6 address): both outcomes are allowed. *)
McIdDnsV6   == 3
McIdIpNas   == 10
McIdPcscfV4 == 12
McIdDnsV4   == 13
McIdMtuV4   == 16
McMappedPrefix == <<0, 0, 0, 0, 0, 0, 0, 0, 0, 0, 255, 255>>
McIsV4(ip)     == Len(ip) = 4
McIsMapped(ip) == Len(ip) = 16 /\ SubSeq(ip, 1, 12) = McMappedPrefix
McIsV6(ip)     == Len(ip) = 16 /\ ~McIsMapped(ip)
McV4Octets(ip) == IF Len(ip) = 4 THEN ip ELSE SubSeq(ip, 13, 16)

McUnit(id, c) == [id |-> id, len |-> Len(c), contents |-> c]
McRefused == [ok |-> FALSE, u |-> McUnit(0, << >>)]
McAppended(id, c) == [ok |-> TRUE, u |-> McUnit(id, c)]
McOpKinds == {"ReqDnsV4", "ReqDnsV6", "ReqIpNas", "DnsV4", "PcscfV4", "DnsV6", "Mtu"}
\* an operation is [k |-> kind, ip |-> octets, mtu |-> 0..65535]; the set of allowed outcomes of one call
McOutcomes(op) ==
  CASE op.k = "ReqDnsV4" -> {McAppended(McIdDnsV4, << >>)}
    [] op.k = "ReqDnsV6" -> {McAppended(McIdDnsV6, << >>)}
    [] op.k = "ReqIpNas" -> {McAppended(McIdIpNas, << >>)}
    [] op.k = "DnsV4"    -> IF McIsV4(op.ip) \/ McIsMapped(op.ip) THEN {McAppended(McIdDnsV4, McV4Octets(op.ip))} ELSE {McRefused}
    [] op.k = "PcscfV4"  -> IF McIsV4(op.ip) \/ McIsMapped(op.ip) THEN {McAppended(McIdPcscfV4, McV4Octets(op.ip))} ELSE {McRefused}
    [] op.k = "DnsV6"    -> IF McIsV6(op.ip) THEN {McAppended(McIdDnsV6, op.ip)}
                            ELSE IF McIsMapped(op.ip) THEN {McAppended(McIdDnsV6, op.ip), McRefused}
                            ELSE {McRefused}
    [] op.k = "Mtu"      -> {McAppended(McIdMtuV4, McBE16(op.mtu))}
    [] OTHER             -> {}
McApply(list, r) == IF r.ok THEN Append(list, r.u) ELSE list
\* the (identifier, length) pairs a built list may contain
McBuilderRows == {<<McIdDnsV4, 0>>, <<McIdDnsV6, 0>>, <<McIdIpNas, 0>>, <<McIdDnsV4, 4>>, <<McIdPcscfV4, 4>>, <<McIdDnsV6, 16>>, <<McIdMtuV4, 2>>}
McRowsOK(list) == \A k \in 1..Len(list) : <<list[k].id, list[k].len>> \in McBuilderRows /\ Len(list[k].contents) = list[k].len

(* ------------------------------------------------------------------ 2  PDU session type, 9.11.4.11
   bits 3..1:  001 IPv4, 010 IPv6, 011 IPv4v6, 100 Unstructured, 101 Ethernet, 111 reserved;
   "All other values are unused and shall be interpreted as IPv4v6, if received by the UE or the
   network" (000 and 110).  The names are those of TS 29.571 PduSessionType. *)
McPduNames == {"IPV4", "IPV6", "IPV4V6", "UNSTRUCTURED", "ETHERNET"}
McPduValue(name) == CASE name = "IPV4" -> 1 [] name = "IPV6" -> 2 [] name = "IPV4V6" -> 3
                      [] name = "UNSTRUCTURED" -> 4 [] name = "ETHERNET" -> 5 [] OTHER -> -1
McPduAssigned == 1..5
McPduUnused == {0, 6}
McPduName(v) == CASE v = 1 -> "IPV4" [] v = 2 -> "IPV6" [] v = 3 -> "IPV4V6" [] v = 4 -> "UNSTRUCTURED"
                  [] v = 5 -> "ETHERNET" [] v \in McPduUnused -> "IPV4V6" [] OTHER -> "?"     \* 7 reserved, > 7 not a 3-bit value

(* ------------------------------------------------------------------ 3  ngKSI, 9.11.3.32
   one half octet: bit 4 = TSC (0 native, 1 mapped security context), bits 3..1 = NAS key set
   identifier (0..6; 7 = no key available / reserved).  The other half of the octet is the spare
   half octet (9.5): sent as 0000, ignored on receipt. *)
McKsiOfOctet(o) == [tsc |-> IF McBit(o, 3) = 1 THEN "MAPPED" ELSE "NATIVE", ksi |-> o % 8]
McOctetOfKsi(m) == (IF m.tsc = "MAPPED" THEN 8 ELSE 0) + m.ksi
McKsiModels == [tsc : {"NATIVE", "MAPPED"}, ksi : 0..7]

(* ------------------------------------------------------------------ 4  DNN, TS 23.003 9.1 (APN) / 9A (DNN)
   A name is a sequence of labels; each label is coded as one length octet followed by that many
   octets; the name is NOT terminated by a zero length octet.  Labels consist of letters, digits
   and the hyphen and begin and end with a letter or digit (RFC 1035 / RFC 1123); the network
   identifier has at most 63 octets after encoding, the whole name at most 100 octets; when an
   operator identifier is present it is the last three labels "mnc<MNC>.mcc<MCC>.gprs".
   Consequence used below: a label of a well-formed name has 1..62 octets (RFC 1035 alone would
   allow 63).  As text the labels are separated by dots. *)
RECURSIVE McDnnEncode(_)
McDnnEncode(ls) == IF ls = << >> THEN << >> ELSE << Len(Head(ls)) >> \o Head(ls) \o McDnnEncode(Tail(ls))
\* b from position p on is a sequence of complete labels whose lengths lie in lo..hi
RECURSIVE McDnnExact(_, _, _, _)
McDnnExact(b, p, lo, hi) == IF p = Len(b) + 1 THEN TRUE
                            ELSE p <= Len(b) /\ b[p] \in lo..hi /\ p + b[p] <= Len(b) /\ McDnnExact(b, p + 1 + b[p], lo, hi)
McDnnExactStd(b) == McDnnExact(b, 1, 1, 63)         \* an encoding RFC 1035 / TS 23.003 can produce (the empty string: no label)
RECURSIVE McDnnLabels(_, _)
McDnnLabels(b, p) == IF p > Len(b) THEN << >> ELSE << SubSeq(b, p + 1, p + b[p]) >> \o McDnnLabels(b, p + 1 + b[p])
McDot == 46
RECURSIVE McJoin(_)
McJoin(ls) == IF ls = << >> THEN << >> ELSE IF Len(ls) = 1 THEN ls[1] ELSE ls[1] \o << McDot >> \o McJoin(Tail(ls))
\* text -> labels: the pieces between the dots (a text without dot is one label, the empty text one empty label)
RECURSIVE McSplitFrom(_, _, _)
McSplitFrom(s, p, acc) == IF p > Len(s) THEN << acc >>
                          ELSE IF s[p] = McDot THEN << acc >> \o McSplitFrom(s, p + 1, << >>)
                          ELSE McSplitFrom(s, p + 1, Append(acc, s[p]))
McSplit(s) == McSplitFrom(s, 1, << >>)
McIsAlnum(c) == c \in 48..57 \/ c \in 65..90 \/ c \in 97..122
McIsLDH(c) == McIsAlnum(c) \/ c = 45
McLabelOK(l) == Len(l) \in 1..62 /\ (\A i \in 1..Len(l) : McIsLDH(l[i])) /\ McIsAlnum(l[1]) /\ McIsAlnum(l[Len(l)])
McLabelGprs == <<103, 112, 114, 115>>
McHasOI(ls) == LET n == Len(ls) IN
               n >= 4 /\ ls[n] = McLabelGprs /\ Len(ls[n - 1]) >= 4 /\ SubSeq(ls[n - 1], 1, 3) = <<109, 99, 99>>
                      /\ Len(ls[n - 2]) >= 4 /\ SubSeq(ls[n - 2], 1, 3) = <<109, 110, 99>>
McNetworkId(ls) == IF McHasOI(ls) THEN SubSeq(ls, 1, Len(ls) - 3) ELSE ls
\* the names TS 23.003 calls well formed: these MUST be carried
McDnnWellFormed(ls) == /\ Len(ls) >= 1 /\ \A k \in 1..Len(ls) : McLabelOK(ls[k])
                       /\ Len(McDnnEncode(McNetworkId(ls))) <= 63 /\ Len(McDnnEncode(ls)) <= 100
\* why a name is not well formed (information for the notes)
McDnnClass(ls) == IF McDnnWellFormed(ls) THEN "well-formed"
                  ELSE IF \E k \in 1..Len(ls) : Len(ls[k]) = 0 THEN (IF Len(ls) = 1 THEN "empty-name" ELSE "empty-label")
                  ELSE IF \E k \in 1..Len(ls) : Len(ls[k]) > 63 THEN "label-over-63"
                  ELSE IF \E k \in 1..Len(ls) : Len(ls[k]) = 63 THEN "label-63"
                  ELSE IF Len(McDnnEncode(ls)) > 100 THEN "over-100"
                  ELSE IF Len(McDnnEncode(McNetworkId(ls))) > 63 THEN "network-id-over-63"
                  ELSE "not-LDH"

(* ------------------------------------------------------------------ 5  UPU transparent container, 9.11.3.53A
   Contents of the IE (after IEI and the two length octets) for UPU data type 0:
        octet 4         UPU header:  bits 8..4 spare 0 | bit 3 REG | bit 2 ACK | bit 1 UPU data type (= 0)
        octets 5..20    UPU-MAC-I_AUSF, 16 octets
        octets 21..22   Counter_UPU, 2 octets
        octets 23*..    UE parameters update list: data sets, each
                           octet d         bits 8..5 spare 0 | bits 4..1 data set type
                                           (0001 routing indicator update data = a secured packet,
                                            0010 default configured NSSAI update data)
                           octets d+1,d+2  length of the data set, most significant octet first
                           octets d+3..    the data set
   The default configured NSSAI data set is the value part of the NSSAI IE (9.11.3.37): S-NSSAI
   values (9.11.2.8), each a length octet followed by SST (1) or SST and SD (4).
   The width of the data-set length field (two octets) is written from memory of figure
   9.11.3.53A.4 and could not be re-read offline: McUpuLenOctets is the single place that says so. *)
McUpuLenOctets == 2
McUpuHeader(reg, ack) == (IF reg THEN 4 ELSE 0) + (IF ack THEN 2 ELSE 0)
McUpuLenField(n, w) == IF w = 2 THEN McBE16(n) ELSE << n % 256 >>     \* w = 1: the OTHER reading (one octet), kept to name it when observed
McSnssai(v) == << 1 + Len(v.sd), v.sst >> \o v.sd             \* sd = << >> or 3 octets
RECURSIVE McNssai(_)
McNssai(vs) == IF vs = << >> THEN << >> ELSE McSnssai(Head(vs)) \o McNssai(Tail(vs))
\* a data set is [ty |-> 1, body |-> secured packet octets] or [ty |-> 2, body |-> McNssai(..)]
McUpuSet(s, w) == << s.ty >> \o McUpuLenField(Len(s.body), w) \o s.body
RECURSIVE McUpuSets(_, _)
McUpuSets(ss, w) == IF ss = << >> THEN << >> ELSE McUpuSet(Head(ss), w) \o McUpuSets(Tail(ss), w)
McUpuEncodeW(reg, ack, mac, ctr, sets, w) == << McUpuHeader(reg, ack) >> \o mac \o ctr \o McUpuSets(sets, w)
McUpuEncode(reg, ack, mac, ctr, sets) == McUpuEncodeW(reg, ack, mac, ctr, sets, McUpuLenOctets)
\* a data set as the API (TS 29.503 UpuData) gives it: [sec |-> secured packet octets or << >>, nssai |-> << [sst, sd], .. >>]
McUpuSetOfApi(s) == IF s.sec # << >> THEN [ty |-> 1, body |-> s.sec] ELSE [ty |-> 2, body |-> McNssai(s.nssai)]
RECURSIVE McUpuSetsOfApi(_)
McUpuSetsOfApi(ss) == IF ss = << >> THEN << >> ELSE << McUpuSetOfApi(Head(ss)) >> \o McUpuSetsOfApi(Tail(ss))
\* the reader a receiving UE applies (declarative: position arithmetic only)
McUpuHasSet(b, p) == p + 2 <= Len(b) /\ p + 2 + (b[p + 1] * 256 + b[p + 2]) <= Len(b)
McUpuNext(b, p) == p + 3 + (b[p + 1] * 256 + b[p + 2])
RECURSIVE McUpuSetsFrom(_, _)
McUpuSetsFrom(b, p) == IF McUpuHasSet(b, p)
                       THEN << [ty |-> b[p] % 16, body |-> SubSeq(b, p + 3, McUpuNext(b, p) - 1)] >> \o McUpuSetsFrom(b, McUpuNext(b, p))
                       ELSE << >>
RECURSIVE McUpuEnd(_, _)
McUpuEnd(b, p) == IF McUpuHasSet(b, p) THEN McUpuEnd(b, McUpuNext(b, p)) ELSE p
McUpuParse(b) == IF Len(b) < 19 \/ b[1] % 2 # 0 \/ McUpuEnd(b, 20) # Len(b) + 1 THEN [ok |-> FALSE]
                 ELSE [ok |-> TRUE, reg |-> McBit(b[1], 2) = 1, ack |-> McBit(b[1], 1) = 1, spare |-> b[1] \div 8,
                       mac |-> SubSeq(b, 2, 17), ctr |-> SubSeq(b, 18, 19), sets |-> McUpuSetsFrom(b, 20)]

\* hexadecimal text (code points) <-> octets
McHexVal(c) == IF c \in 48..57 THEN c - 48 ELSE IF c \in 97..102 THEN c - 87 ELSE IF c \in 65..70 THEN c - 55 ELSE -1
McIsHex(t) == Len(t) % 2 = 0 /\ \A i \in 1..Len(t) : McHexVal(t[i]) >= 0
McUnhex(t) == [i \in 1..(Len(t) \div 2) |-> McHexVal(t[2 * i - 1]) * 16 + McHexVal(t[2 * i])]
McHexDigit(n) == IF n < 10 THEN 48 + n ELSE 87 + n           \* lower case
RECURSIVE McHex(_)
McHex(o) == IF o = << >> THEN << >> ELSE << McHexDigit(Head(o) \div 16), McHexDigit(Head(o) % 16) >> \o McHex(Tail(o))

(* ------------------------------------------------------------------ 6  5G-S-TMSI, TS 23.003 2.10.1
   <5G-S-TMSI> = <AMF Set ID (10 bits)><AMF Pointer (6 bits)><5G-TMSI (32 bits)>: 48 bits.  In the 5GS
   mobile identity IE (9.11.3.4, type of identity 100) they are the six octets after the type octet, in
   this order, most significant bit first.  As text: 12 hexadecimal digits. *)
McTmsiOctets(set, ptr, tmsi) == << set \div 4, (set % 4) * 64 + ptr >> \o tmsi
McTmsiText(o7) == McHex(SubSeq(o7, 2, 7))
McTmsiTypeName == <<53, 71, 45, 83, 45, 84, 77, 83, 73>>        \* "5G-S-TMSI"

(* ------------------------------------------------------------------ 7  5GMM causes, Table 9.11.3.2.1 (Rel-15)
   The values the table assigns.  ("Any other value received ... shall be treated as 0110 1111,
   protocol error, unspecified" is a rule for the receiving entity, not for a naming function.) *)
McKnownCauses == {3, 5, 6, 7, 9, 10, 11, 12, 13, 15, 20, 21, 22, 23, 24, 26, 27, 28, 43, 62, 65, 67, 69, 71, 72, 73,
                  90, 91, 92, 95, 96, 97, 98, 99, 100, 101, 111}

(* ------------------------------------------------------------------ 8  header octets, 9.2 / 9.3 / 9.5
   octet 1 = extended protocol discriminator; in a 5GMM message bits 4..1 of octet 2 are the security
   header type and bits 8..5 the spare half octet ("ignored by the receiving side"). *)
McEpd(b) == b[1]
McSecHdrType(b) == b[2] % 16
McEpd5GMM == 126
McEpd5GSM == 46

(* ------------------------------------------------------------------ 9  PLMN getters
   GetPlmnDigit must describe the three PLMN octets the object holds: UeOctetsToPlmn (UePolicy.tla). *)
McPlmnOf(octs) == UeOctetsToPlmn(octs)
=============================================================================
