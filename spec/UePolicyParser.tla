--------------------------- MODULE UePolicyParser ---------------------------
(* C18 - the nested parser of UePolicy as a small-step machine with an explicit stack, so that
   termination and totality are checkable state properties instead of properties of TLC's own
   recursion:
     * `Measure` is a natural number that strictly decreases with every step while running
       (MeasureDecreases, an action property), so a run has at most Measure0 steps (StepBound);
     * a step is always enabled while running (no deadlock: the machine is total on every
       octet string, it never gets stuck - it accepts or rejects);
     * on termination the machine agrees with the recursive parser of UePolicy (AgreesWithSpec).
   gram = "list"   : sublist* > instruction* > part*          (D.6.2 contents)
   gram = "result" : subresult* > result*                     (D.6.3 contents)            *)
EXTENDS UePolicy
VARIABLES inp, gram, pos, stack, status, steps
pvars == << inp, gram, pos, stack, status, steps >>

Depth == Len(stack)
Top == stack[Depth]
Frame(end, hdr) == [end |-> end, hdr |-> hdr, items |-> << >>]

PInit(b, g) ==
  /\ inp = b /\ gram = g /\ pos = 1 /\ status = "run" /\ steps = 0
  /\ stack = << Frame(Len(b) + 1, [k |-> "top"]) >>

\* the same as an action (used by model-checking modules that choose the input in a first step)
PStart(b, g) ==
  /\ inp' = b /\ gram' = g /\ pos' = 1 /\ status' = "run" /\ steps' = 0
  /\ stack' = << Frame(Len(b) + 1, [k |-> "top"]) >>

\* the element a closed frame stands for
Close(f, d) ==
  IF d = 2 THEN (IF gram = "list" THEN [plmn |-> f.hdr.plmn, ins |-> f.items]
                                  ELSE [plmn |-> f.hdr.plmn, rs |-> f.items])
  ELSE [upsc |-> f.hdr.upsc, parts |-> f.items]

AppendTop(x) == [stack EXCEPT ![Depth] = [@ EXCEPT !.items = Append(@, x)]]
Reject == status' = "err" /\ UNCHANGED << pos, stack >>

Step ==
  /\ status = "run"
  /\ steps' = steps + 1
  /\ UNCHANGED << inp, gram >>
  /\ LET avail == Top.end - pos IN
     IF avail = 0 THEN
        IF Depth = 1 THEN status' = "ok" /\ UNCHANGED << pos, stack >>
        ELSE /\ stack' = [SubSeq(stack, 1, Depth - 1) EXCEPT ![Depth - 1] =
                              [@ EXCEPT !.items = Append(@, Close(Top, Depth))]]
             /\ UNCHANGED << pos, status >>
     ELSE IF Depth = 1 THEN                                   \* sublist / subresult header
        IF avail < 5 THEN Reject
        ELSE LET L == UeU16(inp, pos) IN
             IF L < 3 \/ 2 + L > avail THEN Reject
             ELSE /\ stack' = Append(stack, Frame(pos + 2 + L, [plmn |-> SubSeq(inp, pos + 2, pos + 4)]))
                  /\ pos' = pos + 5 /\ UNCHANGED status
     ELSE IF gram = "result" THEN                             \* a result: 5 octets, no length
        IF avail < 5 THEN Reject
        ELSE /\ stack' = AppendTop([upsc |-> UeU16(inp, pos), ord |-> UeU16(inp, pos + 2), cause |-> UeCauseUnspecified])
             /\ pos' = pos + 5 /\ UNCHANGED status
     ELSE IF Depth = 2 THEN                                   \* instruction header
        IF avail < 4 THEN Reject
        ELSE LET L == UeU16(inp, pos) IN
             IF L < 2 \/ 2 + L > avail THEN Reject
             ELSE /\ stack' = Append(stack, Frame(pos + 2 + L, [upsc |-> UeU16(inp, pos + 2)]))
                  /\ pos' = pos + 4 /\ UNCHANGED status
     ELSE                                                     \* a part (leaf)
        IF avail < 3 THEN Reject
        ELSE LET L == UeU16(inp, pos) IN
             IF L < 1 \/ 2 + L > avail THEN Reject
             ELSE /\ stack' = AppendTop([ty |-> inp[pos + 2], c |-> SubSeq(inp, pos + 3, pos + 1 + L)])
                  /\ pos' = pos + 2 + L /\ UNCHANGED status

Done == status # "run" /\ UNCHANGED pvars
PNext == Step \/ Done

\* ---- termination measure
Measure == IF status = "run" THEN 2 * (Len(inp) + 1 - pos) + Depth ELSE 0
Measure0 == 2 * Len(inp) + 1
MeasureNat == Measure >= 0 /\ pos <= Top.end /\ Top.end <= Len(inp) + 1
MeasureDecreases == [][status = "run" => Measure' < Measure]_pvars
StepBound == steps <= Measure0 + 1
\* ---- agreement with the recursive parser
SpecParse == IF gram = "list" THEN UeParseSubs(inp) ELSE UeParseSubRess(inp)
AgreesWithSpec ==
  /\ status = "ok" => (SpecParse.ok /\ SpecParse.v = stack[1].items)
  /\ status = "err" => ~SpecParse.ok
\* ---- an accepted string is the canonical encoding of what was parsed
Canonical ==
  status = "ok" => inp = (IF gram = "list" THEN UeMarshalSubs(stack[1].items) ELSE UeMarshalSubRess(stack[1].items))
=============================================================================
