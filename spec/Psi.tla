------------------------------- MODULE Psi -------------------------------
(* C16 - PDU session status (TS 24.501 9.11.3.44) and the other PSI bitmaps: two octets,
   octet 1 = PSI(7) .. PSI(0) with PSI(0) in bit 1, octet 2 = PSI(15) .. PSI(8):
       entry i of the 16-entry bitmap  <->  bit (i mod 8) of octet (i div 8)   (bit 0 = least significant).
   A bitmap is a function 0..15 -> BOOLEAN; the octets are a pair <<o0, o1>>.
   Pure operators (oracle for the trace specification) and a one-variable enumeration machine
   whose 65 536 initial states let TLC check both round trips exhaustively (MC_C16_psi). *)
EXTENDS Integers, Sequences
Bit(x, k) == (x \div (2 ^ k)) % 2
BitmapOfOctets(o) == [i \in 0..15 |-> Bit(o[(i \div 8) + 1], i % 8) = 1]
RECURSIVE SumBits(_, _, _)
SumBits(b, lo, k) == IF k > 7 THEN 0 ELSE (IF b[lo + k] THEN 2 ^ k ELSE 0) + SumBits(b, lo, k + 1)
OctetsOfBitmap(b) == <<SumBits(b, 0, 0), SumBits(b, 8, 0)>>
\* the same bitmap given as the sequence of 16 entries (index i+1 holds entry i), as the harness logs it
SeqOfBitmap(b) == [k \in 1..16 |-> b[k - 1]]
BitmapOfSeq(s) == [i \in 0..15 |-> s[i + 1]]
\* reactivation-result error cause list (9.11.3.43): pairs (PSI, cause) in order
RECURSIVE Interleave(_, _)
Interleave(a, b) == IF a = <<>> THEN <<>> ELSE <<Head(a), Head(b)>> \o Interleave(Tail(a), Tail(b))

VARIABLE v          \* the 16-bit value o0 + 256*o1 under enumeration
OctetsOfValue(x) == <<x % 256, x \div 256>>
PsiInit == v \in 0..65535
PsiNext == UNCHANGED v
PsiSpec == PsiInit /\ [][PsiNext]_v
\* laws
OctetsRoundTrip == OctetsOfBitmap(BitmapOfOctets(OctetsOfValue(v))) = OctetsOfValue(v)
BitLaw == LET o == OctetsOfValue(v) b == BitmapOfOctets(o) IN
          \A i \in 0..15 : b[i] = (Bit(v, i) = 1)           \* entry i is bit i of the 16-bit value, octet 0 low
\* the map octets -> bitmap is a bijection onto [0..15 -> BOOLEAN]: injective (round trip above) and
\* every bitmap is hit: the bitmap built from the bits of v maps back to itself
BitmapRoundTrip == LET b == [i \in 0..15 |-> Bit(v, i) = 1] IN BitmapOfOctets(OctetsOfBitmap(b)) = b /\ OctetsOfBitmap(b) = OctetsOfValue(v)
==========================================================================
