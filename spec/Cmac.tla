-------------------------------- MODULE Cmac --------------------------------
(* AES-128-CMAC, NIST SP 800-38B (= RFC 4493): subkey generation 6.1, MAC generation 6.2;
   the full 16-octet tag (callers truncate). *)
EXTENDS Aes128
LOCAL INSTANCE SequencesExt       \* FoldLeft
Zero16 == Zeros(16)
\* doubling in GF(2^128): shift left one bit, conditional xor of R_128 = 0x87
Dbl(b) == LET sh == SubSeq([i \in 1..16 |-> ((b[i] * 2) % 256) + (IF i < 16 THEN b[i+1] \div 128 ELSE 0)], 1, 16) IN
          IF b[1] >= 128 THEN [sh EXCEPT ![16] = sh[16] ^^ 135] ELSE sh
SubKey1W(w) == Dbl(EncryptW(w, Zero16))
SubKey1(k) == SubKey1W(KeyWords(k))
SubKey2(k) == Dbl(SubKey1(k))
CbcMac(w, blocks) == FoldLeft(LAMBDA x, b : EncryptW(w, XorS(x, b)), Zero16, blocks)
Cmac(k, m) == LET w == KeyWords(k)
                  k1 == SubKey1W(w)  k2 == Dbl(k1)
                  n == IF Len(m) = 0 THEN 1 ELSE (Len(m) + 15) \div 16
                  complete == Len(m) > 0 /\ Len(m) % 16 = 0
                  lastraw == SubSeq(m, 16*(n-1) + 1, Len(m))
                  last == IF complete THEN XorS(lastraw, k1)
                          ELSE XorS(SubSeq(lastraw \o <<128>> \o Zeros(15), 1, 16), k2)
                  blocks == SubSeq([i \in 1..n |-> IF i < n THEN SubSeq(m, 16*(i-1) + 1, 16*i) ELSE last], 1, n)
              IN CbcMac(w, blocks)
=============================================================================
