----------------------------- MODULE PcoBuilder -----------------------------
(* X02 - a protocol-configuration-options list UNDER CONSTRUCTION as a state machine.
   State: the unit list built so far, the operations performed (ghost), whether the last call
   reported an error.  One step = one Add* call of the library with one argument of the small
   domain; its effect is one of MiscConvert!McOutcomes (append one container / refuse).
   TLC checks (MC_X02_pco): every reachable list has only the rows of Table 10.5.154 the builders
   stand for, an error leaves the list untouched, exactly the accepted calls appear in order, and
   every reachable list marshals to an octet string the grammar of C16 (PcoGrammar) reads back
   exactly - the builders can never produce a list the reader of C16 mis-reads. *)
EXTENDS MiscConvert
CONSTANTS PbIps,       \* IP arguments (octet sequences)
          PbMtus,      \* MTU arguments
          PbMaxOps     \* longest history
VARIABLES pbList, pbOps, pbOut
pbVars == <<pbList, pbOps, pbOut>>

PbNoIp == << >>
PbOps == [k : {"ReqDnsV4", "ReqDnsV6", "ReqIpNas"}, ip : {PbNoIp}, mtu : {0}]
         \cup [k : {"DnsV4", "PcscfV4", "DnsV6"}, ip : PbIps, mtu : {0}]
         \cup [k : {"Mtu"}, ip : {PbNoIp}, mtu : PbMtus]

PbInit == pbList = << >> /\ pbOps = << >> /\ pbOut = << >>
PbCall(op) == /\ Len(pbOps) < PbMaxOps
              /\ \E r \in McOutcomes(op) :
                    /\ pbList' = McApply(pbList, r)
                    /\ pbOut' = Append(pbOut, r)
              /\ pbOps' = Append(pbOps, op)
PbNext == \E op \in PbOps : PbCall(op)
PbSpec == PbInit /\ [][PbNext]_pbVars

\* ------------------------------------------------------------------ laws
PbRows == McRowsOK(pbList) /\ WellFormedList(pbList)
\* the list is exactly the units of the accepted calls, in call order
RECURSIVE PbAccepted(_)
PbAccepted(rs) == IF rs = << >> THEN << >> ELSE (IF Head(rs).ok THEN << Head(rs).u >> ELSE << >>) \o PbAccepted(Tail(rs))
PbHistory == pbList = PbAccepted(pbOut) /\ Len(pbOut) = Len(pbOps)
PbFrame == [][LET r == pbOut'[Len(pbOut')] IN
              /\ Len(pbOut') = Len(pbOut) + 1
              /\ IF r.ok THEN pbList' = Append(pbList, r.u) ELSE pbList' = pbList]_pbVars
\* requests never fail; a wrong-family or malformed address always fails
PbErrors == \A k \in 1..Len(pbOps) :
              LET op == pbOps[k] IN
              /\ op.k \in {"ReqDnsV4", "ReqDnsV6", "ReqIpNas", "Mtu"} => pbOut[k].ok
              /\ (op.k \in {"DnsV4", "PcscfV4"} /\ ~(McIsV4(op.ip) \/ McIsMapped(op.ip))) => ~pbOut[k].ok
              /\ (op.k = "DnsV6" /\ Len(op.ip) # 16) => ~pbOut[k].ok
\* an IPv4 container carries the four address octets whichever form the argument had; the MTU is big endian
PbContents == \A k \in 1..Len(pbOps) :
                LET op == pbOps[k] u == pbOut[k].u IN
                pbOut[k].ok =>
                  /\ op.k \in {"DnsV4", "PcscfV4"} => (u.len = 4 /\ u.contents = SubSeq(op.ip, Len(op.ip) - 3, Len(op.ip)))
                  /\ op.k = "DnsV6" => (u.len = 16 /\ u.contents = op.ip)
                  /\ op.k = "Mtu" => (u.len = 2 /\ u.contents[1] * 256 + u.contents[2] = op.mtu)
                  /\ op.k \in {"ReqDnsV4", "ReqDnsV6", "ReqIpNas"} => u.len = 0
\* every built list goes through the grammar of C16 unchanged
PbGrammar == LET m == Marshal(pbList) IN
             /\ Exact(m) /\ StripAll(Units(m)) = pbList
             /\ m[1] = 128
RECURSIVE PbSize(_)
PbSize(us) == IF us = << >> THEN 0 ELSE 3 + Head(us).len + PbSize(Tail(us))
PbLength == Len(Marshal(pbList)) = 1 + PbSize(pbList)
\* NEGATIVE CONTROL (must be violated): refusals are reachable, so PbErrors / PbFrame are not vacuous
PbNoRefusal == \A k \in 1..Len(pbOut) : pbOut[k].ok
=============================================================================
