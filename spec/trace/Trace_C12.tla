---------------------------- MODULE Trace_C12 ----------------------------
(* Trace validation for C12.  Every event is one call of a conversion function of the library
   (or a composition of two of them, op "RT.*"), logged at its return with its full input and output;
   text is a sequence of code points.  For each event TLC evaluates the operators of Identity.tla on the
   logged INPUT and compares with the logged OUTPUT:
     wire -> text   output text  = XToText(XFromWire(input).v)         when the input is a valid identity
     text -> wire   output octets = XToWire(XFromText(input).v)         when the input is a valid text,
                    and an error must be reported                       when it is not
     round trips    text -> wire -> text = (lower-cased) text, wire -> text -> wire = wire
     Digest         weighted sums of a whole function table over one chunk of the 2^24 AMF identifiers
   Every result is logged twice: read at once (ots / ob / on) and read again from the retained return values after
   later calls (hts / hb / hn, hc = number of those calls); the two readings must agree.
   The spec is total: a mismatch prints <<"MISMATCH", l, op, class>> and the cursor moves on.
   Inputs outside the domain of the property (octets that are no valid identity of the kind the function
   is for) give no verdict; they are counted, the last event prints the counts. *)
EXTENDS Identity, Json, TLC, FiniteSetsExt
VARIABLES l
TraceLog == ndJsonDeserialize("trace.ndjson")

\* ------------------------------------------------------------------ classification helpers
\* NOT part of the specification: the shape of a wrong behaviour that is a listed finding, so that a mismatch can
\* be attributed to that finding and to nothing else (any other wrong output gets a different class).
UnshiftedWire(a) == <<a[1], a[2] \div 4, ((a[2] % 4) + a[3]) % 256>>      \* low set-id bits added without the shift by 6
UnshiftedText(a) == HexText(UnshiftedWire(a))

V(cls) == cls
OK == "ok"
SKIP == "skip"

Plmn234(b) == PlmnFromWire(SubSeq(b, 2, 4))

JPlmnIDToNas(e) ==
  LET p == PlmnFromTexts(e.ts[1], e.ts[2]) IN
  IF ~p.ok THEN SKIP ELSE IF e.panic THEN "panic" ELSE IF e.ob = PlmnToWire(p.v) THEN OK ELSE "wrong-octets"
JPlmnIDToString(e) ==
  LET p == PlmnFromWire(e.b) IN
  IF ~p.ok THEN SKIP ELSE IF e.panic THEN "panic" ELSE IF e.ots = <<PlmnToText(p.v)>> THEN OK ELSE "wrong-text"
JRTPlmnText(e) ==
  LET p == PlmnFromTexts(e.ts[1], e.ts[2]) IN
  IF ~p.ok THEN SKIP ELSE IF e.panic THEN "panic" ELSE IF e.ots = <<e.ts[1] \o e.ts[2]>> THEN OK ELSE "round-trip"
JRTPlmnWire(e) ==
  IF ~PlmnFromWire(e.b).ok THEN SKIP ELSE IF e.panic THEN "panic" ELSE IF e.ob = e.b THEN OK ELSE "round-trip"

JAmfIdToModels(e) ==
  IF ~(Len(e.n) = 3 /\ AmfOK(e.n)) THEN SKIP
  ELSE IF e.panic THEN "panic"
  ELSE IF e.ots = <<AmfToText(e.n)>> THEN OK
  ELSE IF e.n[2] % 4 # 0 /\ e.ots = <<UnshiftedText(e.n)>> THEN "low-set-bits-unshifted"
  ELSE "wrong-text"
JAmfIdToNas(e) ==
  LET t == e.ts[1]  r == AmfFromText(t) IN
  IF r.ok THEN (IF e.panic THEN "panic" ELSE IF e.err THEN "valid-rejected" ELSE IF e.on = r.v THEN OK ELSE "wrong-split")
  ELSE IF e.err THEN OK
  ELSE IF AllHexCp(t) /\ Len(t) % 2 = 0 /\ Len(t) < 6 /\ e.panic THEN "short-text-panic"
  ELSE IF AllHexCp(t) /\ Len(t) % 2 = 0 /\ Len(t) > 6 /\ ~e.panic THEN "long-text-accepted"
  ELSE IF e.panic THEN "invalid-text-panic" ELSE "invalid-text-accepted"
JRTAmfNum(e) ==
  IF ~(Len(e.n) = 3 /\ AmfOK(e.n)) THEN SKIP
  ELSE IF e.panic THEN "panic"
  ELSE IF ~e.err /\ e.on = e.n THEN OK
  ELSE IF ~e.err /\ e.n[2] % 4 # 0 /\ e.on = AmfFromWire(UnshiftedWire(e.n)) THEN "low-set-bits-unshifted"
  ELSE "round-trip"
JRTAmfText(e) ==
  LET t == e.ts[1]  r == AmfFromText(t) IN
  IF ~r.ok THEN SKIP
  ELSE IF e.panic THEN "panic"
  ELSE IF ~e.err /\ e.ots = <<LowerHex(t)>> THEN OK
  ELSE IF ~e.err /\ r.v[2] % 4 # 0 /\ e.ots = <<UnshiftedText(r.v)>> THEN "low-set-bits-unshifted"
  ELSE "round-trip"

JGutiToString(e) ==
  LET r == GutiFromWire(e.b) IN
  IF ~r.ok THEN SKIP
  ELSE IF e.panic THEN "panic" ELSE IF e.err THEN "valid-rejected"
  ELSE IF e.ots = <<GutiToText(r.v), MccText(r.v.plmn), MncText(r.v.plmn), AmfToText(r.v.amf)>> THEN OK ELSE "wrong-text"
JGutiToNas(e) ==
  LET r == GutiFromText(e.ts[1]) IN
  IF r.ok THEN (IF e.panic THEN "panic" ELSE IF e.err THEN "valid-rejected"
                ELSE IF e.ob = GutiToWire(r.v) /\ e.on = <<11>> THEN OK ELSE "wrong-octets")
  ELSE IF e.err THEN OK ELSE IF e.panic THEN "invalid-text-panic" ELSE "invalid-text-accepted"
JRTGutiText(e) ==
  LET t == e.ts[1] IN
  IF ~GutiFromText(t).ok THEN SKIP
  ELSE IF e.panic THEN "panic" ELSE IF ~e.err /\ e.ots = <<LowerHex(t)>> THEN OK ELSE "round-trip"
JRTGutiWire(e) ==
  IF ~GutiFromWire(e.b).ok THEN SKIP
  ELSE IF e.panic THEN "panic" ELSE IF ~e.err /\ e.ob = e.b THEN OK ELSE "round-trip"

JSuciToString(e) ==
  LET r == SuciFromWire(e.b) IN
  IF ~r.ok THEN SKIP
  ELSE IF e.panic THEN "panic" ELSE IF e.err THEN "valid-rejected"
  ELSE IF e.ots = <<SuciToText(r.v), IF r.v.fmt = 0 THEN PlmnToText(r.v.plmn) ELSE <<>> >> THEN OK ELSE "wrong-text"
JPeiToString(e) ==
  LET r == PeiFromWire(e.b) IN
  IF ~r.ok THEN SKIP
  ELSE IF e.panic THEN "panic" ELSE IF e.err THEN "valid-rejected"
  ELSE IF e.ots = <<PeiToText(r.v)>> THEN OK ELSE "wrong-text"

\* the text every getter of nasType.MobileIdentity5GS must give, by type of identity (table 9.11.3.4.1)
ValidIdentity(b) ==
  IF Len(b) = 0 THEN FALSE
  ELSE CASE IdentityType(b) = 1 -> SuciFromWire(b).ok
         [] IdentityType(b) = 2 -> GutiFromWire(b).ok
         [] IdentityType(b) \in {3, 5} -> PeiFromWire(b).ok
         [] IdentityType(b) = 4 -> STmsiFromWire(b).ok
         [] OTHER -> FALSE
IdText(b) == CASE IdentityType(b) = 1 -> SuciToText(SuciFromWire(b).v)
               [] IdentityType(b) = 2 -> GutiToText(GutiFromWire(b).v)
               [] IdentityType(b) = 4 -> STmsiToText(STmsiFromWire(b).v)
               [] OTHER -> PeiToText(PeiFromWire(b).v)
One(e, t) == IF e.panic THEN "panic" ELSE IF ~e.err /\ e.ots = <<t>> THEN OK ELSE "wrong-text"
JGetter(e) ==
  LET b == e.b IN
  IF ~ValidIdentity(b) THEN SKIP ELSE
  LET k == IdentityType(b)
      g == GutiFromWire(b).v
      s == STmsiFromWire(b).v
      u == SuciFromWire(b).v
  IN CASE e.op = "MI.GetTypeOfIdentity" -> One(e, IdentityTypeName(k))
       [] e.op = "MI.GetMobileIdentity" ->
            IF k = 4 THEN SKIP      \* see NoteOf
            ELSE IF e.panic THEN "panic"
            ELSE IF ~e.err /\ e.ots = <<IdText(b), IdentityTypeName(k)>> THEN OK ELSE "wrong-text"
       [] e.op = "MI.GetSUCI" -> IF k = 1 THEN One(e, SuciToText(u)) ELSE SKIP
       [] e.op = "MI.Get5GGUTI" -> IF k = 2 THEN One(e, GutiToText(g)) ELSE SKIP
       [] e.op = "MI.GetPlmnID" -> IF k = 2 THEN One(e, PlmnToText(g.plmn)) ELSE IF k = 1 /\ u.fmt = 0 THEN One(e, PlmnToText(u.plmn)) ELSE SKIP
       [] e.op = "MI.GetMCC" -> IF k = 2 THEN One(e, MccText(g.plmn)) ELSE IF k = 1 /\ u.fmt = 0 THEN One(e, MccText(u.plmn)) ELSE SKIP
       [] e.op = "MI.GetMNC" -> IF k = 2 THEN One(e, MncText(g.plmn)) ELSE IF k = 1 /\ u.fmt = 0 THEN One(e, MncText(u.plmn)) ELSE SKIP
       [] e.op = "MI.GetAmfID" -> IF k = 2 THEN One(e, AmfToText(g.amf)) ELSE SKIP
       [] e.op = "MI.GetAmfRegionID" -> IF k = 2 THEN One(e, HexText(<<g.amf[1]>>)) ELSE SKIP
       [] e.op = "MI.GetAmfSetID" -> IF k = 2 THEN One(e, DecText(g.amf[2])) ELSE IF k = 4 THEN One(e, DecText(s.set)) ELSE SKIP
       [] e.op = "MI.GetAmfPointer" -> IF k = 2 THEN One(e, DecText(g.amf[3])) ELSE IF k = 4 THEN One(e, DecText(s.pointer)) ELSE SKIP
       [] e.op = "MI.Get5GTMSI" -> IF k = 2 THEN One(e, HexText(g.tmsi)) ELSE IF k = 4 THEN One(e, HexText(s.tmsi)) ELSE SKIP
       [] e.op = "MI.Get5GSTMSI" -> IF k # 4 THEN SKIP ELSE IF e.panic THEN "panic"
                                    ELSE IF ~e.err /\ e.ots = <<STmsiToText(s), IdentityTypeName(4)>> THEN OK ELSE "wrong-text"
       [] e.op = "MI.GetIMEI" -> IF k = 3 THEN One(e, PeiToText(PeiFromWire(b).v)) ELSE SKIP
       [] e.op = "MI.GetIMEISV" -> IF k = 5 THEN One(e, PeiToText(PeiFromWire(b).v)) ELSE SKIP
       [] OTHER -> "unknown-op"

\* ------------------------------------------------------------------ digests (DESIGN 4.3)
P1 == 46337
P2 == 46327
P3 == 46309
Pack3(t, off) == t[off + 1] + 128 * t[off + 2] + 16384 * t[off + 3]
RECURSIVE PackDec(_, _)
PackDec(t, j) == IF j > Len(t) \/ j > 4 THEN 0 ELSE t[j] + 128 * PackDec(t, j + 1)
Split24(i) == <<i \div 65536, (i \div 64) % 1024, i % 64>>
Oct24(i)   == <<i \div 65536, (i \div 256) % 256, i % 256>>
\* element i of table k, computed with the specification's operators
SpecVal(k, i) ==
  CASE k = 1 -> Pack3(AmfToText(Split24(i)), 0)
    [] k = 2 -> Pack3(AmfToText(Split24(i)), 3)
    [] k = 3 -> LET a == AmfFromText(HexText(Oct24(i))).v IN a[1] + 256 * a[3] + 16384 * a[2]
    [] k = 4 -> PackDec(DecText(AmfFromWire(Oct24(i))[2]), 1)
    [] k = 5 -> PackDec(DecText(AmfFromWire(Oct24(i))[3]), 1)
ShapeVal(k, i) == IF k = 2 THEN Pack3(UnshiftedText(Split24(i)), 3) ELSE SpecVal(k, i)
Sums(F(_), chunk) ==
  FoldSet(LAMBDA i, acc : LET v == F(i) IN << (acc[1] + ((i % P1) + 1) * (v % P1)) % P1,
                                              (acc[2] + ((i % P2) + 1) * (v % P2)) % P2,
                                              (acc[3] + ((i % P3) + 1) * (v % P3)) % P3 >>,
          <<0, 0, 0>>, (65536 * chunk)..(65536 * chunk + 65535))
JDigest(e) ==
  LET k == e.n[1]  c == e.n[2]
      F(i) == SpecVal(k, i)
      H(i) == ShapeVal(k, i)
  IN IF e.on = Sums(F, c) THEN OK
     ELSE IF k = 2 /\ e.on = Sums(H, c) THEN "low-set-bits-unshifted"
     ELSE "digest-differs"

Judge(e) ==
  CASE e.op = "PlmnIDToNas" -> JPlmnIDToNas(e)
    [] e.op = "PlmnIDToString" -> JPlmnIDToString(e)
    [] e.op = "RT.PlmnText" -> JRTPlmnText(e)
    [] e.op = "RT.PlmnWire" -> JRTPlmnWire(e)
    [] e.op = "AmfIdToModels" -> JAmfIdToModels(e)
    [] e.op = "AmfIdToNasWithError" -> JAmfIdToNas(e)
    [] e.op = "RT.AmfNum" -> JRTAmfNum(e)
    [] e.op = "RT.AmfText" -> JRTAmfText(e)
    [] e.op = "GutiToStringWithError" -> JGutiToString(e)
    [] e.op = "GutiToNasWithError" -> JGutiToNas(e)
    [] e.op = "RT.GutiText" -> JRTGutiText(e)
    [] e.op = "RT.GutiWire" -> JRTGutiWire(e)
    [] e.op = "SuciToStringWithError" -> JSuciToString(e)
    [] e.op = "PeiToStringWithError" -> JPeiToString(e)
    [] e.op = "Digest" -> JDigest(e)
    [] OTHER -> JGetter(e)

\* information only (never a verdict): behaviour the property does not speak about
NoteOf(e) ==
  CASE e.op = "MI.GetMobileIdentity" /\ ValidIdentity(e.b) /\ IdentityType(e.b) = 4 /\ ~e.panic
         /\ e.ots # <<STmsiToText(STmsiFromWire(e.b).v), IdentityTypeName(4)>>
         -> "stmsi-getmobileidentity-tmsi-only"
    [] e.op = "GutiToStringWithError" /\ Len(e.b) # 11 /\ ~e.err /\ ~e.panic -> "guti-wrong-length-accepted"
    [] e.op = "SuciToStringWithError" /\ Len(e.b) < 9 /\ (Len(e.b) = 0 \/ e.b[1] \div 16 = 0) /\ ~e.err /\ ~e.panic -> "suci-short-accepted"
    [] OTHER -> ""

\* A result is a value: what the caller reads from the returned slices / strings / structs after further calls of the
\* same function (with other arguments) and of other functions were made must be what it read when the call returned.
Held(e) == e.hts = e.ots /\ e.hb = e.ob /\ e.hn = e.on
\* Rendering is a READ of the wire octets: the octets the caller handed in (the slice, or the element's own contents) are
\* the same afterwards (io >= 1), and rendering the same element once more gives the same text (io = 2).
InputKept(e) == e.io = 0 \/ e.ib = e.b
SameAgain(e) == e.io < 2 \/ e.rts = e.ots
TInit == l = 1 /\ TLCSet(2, 0) /\ TLCSet(3, 0) /\ TLCSet(4, 0) /\ TLCSet(5, 0)
TNext ==
  /\ l <= Len(TraceLog)
  /\ LET e == TraceLog[l]
         j == Judge(e)
         n == NoteOf(e)
     IN /\ CASE j = OK /\ Held(e) /\ (e.panic \/ (InputKept(e) /\ SameAgain(e))) -> TLCSet(4, TLCGet(4) + 1)
             [] j = OK /\ Held(e) /\ ~InputKept(e) -> PrintT(<<"MISMATCH", l, e.op, "wire-octets-changed-by-rendering">>)
             [] j = OK /\ Held(e) -> PrintT(<<"MISMATCH", l, e.op, "second-rendering-differs">>)
             [] j = OK -> PrintT(<<"MISMATCH", l, e.op, "result-changed-after-return">>)
             [] j = SKIP -> TLCSet(5, TLCGet(5) + 1)
             [] OTHER -> PrintT(<<"MISMATCH", l, e.op, j>>)
        /\ IF n = "" \/ TLCGet(3) >= 5 THEN TRUE ELSE PrintT(<<"MISMATCH", l, "NOTE", n>>) /\ TLCSet(3, TLCGet(3) + 1)
        /\ IF l = Len(TraceLog) THEN PrintT(<<"MISMATCH", l, "STATS", TLCGet(4), TLCGet(5)>>) ELSE TRUE
  /\ TLCSet(2, l)
  /\ l' = l + 1
Consumed == PrintT(<<"CONSUMED", TLCGet(2)>>)
==========================================================================
