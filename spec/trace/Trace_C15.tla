---------------------------- MODULE Trace_C15 ----------------------------
(* Trace validation for C15.  Events (harness/cmd/qos), K = Rules | Descs:
     K RoundTrip   x -> MarshalBinary -> bytes (merr) -> UnmarshalBinary -> back (uerr) -> MarshalBinary -> bytes2 (m2err)
     K Unmarshal   bytes -> UnmarshalBinary -> back (uerr)
   VERDICTS (MISMATCH), per DESIGN C15-V:
     hang, panic            a hang, or a panic inside the library ("panic-unknown-param-id": a panic of the description reader on an
                            input in which it meets an unknown parameter identifier - the class of the recorded defect)
     refused / refused-label-ge-2e19    MarshalBinary returns an error for a well-formed value (the latter: it holds a flow label >= 2^19)
     octets                 marshalled octets differ from QosGrammar!Marshal
     roundTrip              UnmarshalBinary(MarshalBinary(x)) fails or differs from x
     remarshal              marshalling the parsed value again fails or differs
     unkAccepted            an input whose first grammar error is an unknown identifier is accepted without error
     canonValue / canonRefused   a canonical well-formed input (Marshal(Parse(d)) = d) is parsed to another value / refused
   INFORMATION (DIVERGE): every other difference between the library's reader and the strict grammar
   (truncated input accepted, length fields not enforced, spare bits kept).
   Printed tuples are kept short: TLC wraps values longer than 80 columns.  Total. *)
EXTENDS QosGrammar, Json, TLC
VARIABLES l
TraceLog == ndJsonDeserialize("trace.ndjson")

IsRulesOp(op) == op \in {"RulesRoundTrip", "RulesUnmarshal"}
Mis(cls, e, detail) == PrintT(<<"MISMATCH", l, e.op, cls, detail>>)
\* notes: at most 12 printed per class and shard (one TLC register per class)
Reg(cls) == CASE cls = "truncated" -> 3 [] cls = "length" -> 4 [] cls = "spare/value" -> 5 [] cls = "spare/refused" -> 6 [] OTHER -> 7
Div(cls, e, detail) == LET r == Reg(cls) + (IF IsRulesOp(e.op) THEN 0 ELSE 5) IN
                       (TLCGet(r) >= 12 \/ PrintT(<<"DIVERGE", l, e.op, cls, detail>>)) /\ TLCSet(r, TLCGet(r) + 1)
Harness(what) == PrintT(<<"HARNESS", l, what>>)

IsRules(e) == e.op \in {"RulesRoundTrip", "RulesUnmarshal"}
MarshalK(e, x) == IF IsRules(e) THEN MarshalRules(x) ELSE MarshalDescs(x)
ParseK(e, d)   == IF IsRules(e) THEN ParseRules(d) ELSE ParseDescs(d)
WFK(e, x)      == IF IsRules(e) THEN WFRules(x) ELSE WFDescs(x)
BigLabel(x) == \E i \in 1..Len(x) : \E j \in 1..Len(x[i].filters) : \E k \in 1..Len(x[i].filters[j].comps) :
                  x[i].filters[j].comps[k].t = 128 /\ x[i].filters[j].comps[k].f[1] >= 524288

\* Classification aid only (never a verdict by itself): does a reader that walks the descriptions with the
\* length octets AS GIVEN (value = the next `length` octets, a value longer than its kind tolerated) meet an
\* unknown parameter identifier?  This is the input predicate of the recorded defect "unknown parameter identifier".
Min(a, b) == IF a < b THEN a ELSE b
RECURSIVE LUnk(_, _, _)
LUnk(d, p, n) ==
  IF n = 0 THEN (IF p + 2 > Len(d) THEN FALSE ELSE LUnk(d, p + 3, d[p + 2] % 64))
  ELSE IF p + 1 > Len(d) THEN FALSE
  ELSE IF d[p] \notin ParamIds THEN TRUE
  ELSE IF Min(d[p + 1], Len(d) - (p + 1)) < Sum(PLayout(d[p])) THEN FALSE
  ELSE LUnk(d, p + 2 + d[p + 1], n - 1)
MeetsUnknownParam(d) == LUnk(d, 1, 0)

CheckRoundTrip(e) ==
  IF e.hang THEN Mis("hang", e, 0)
  ELSE IF e.panic THEN (IF e.plib THEN Mis("panic", e, 0) ELSE Harness("panic"))
  ELSE IF ~WFK(e, e.x) THEN Harness("ill-formed case")
  ELSE IF e.merr THEN Mis(IF IsRules(e) /\ BigLabel(e.x) THEN "refused-label-ge-2e19" ELSE "refused", e, 0)
  ELSE LET m == MarshalK(e, e.x) IN
       /\ IF e.bytes = m THEN TRUE ELSE Mis("octets", e, Len(e.bytes) - Len(m))
       /\ IF ~e.uerr /\ e.back = e.x THEN TRUE ELSE Mis("roundTrip", e, IF e.uerr THEN -1 ELSE Len(e.back))
       /\ IF e.uerr \/ (~e.m2err /\ e.bytes2 = e.bytes) THEN TRUE ELSE Mis("remarshal", e, IF e.m2err THEN -1 ELSE Len(e.bytes2))

CheckUnmarshal(e) ==
  LET r == ParseK(e, e.bytes) IN
  IF e.hang THEN Mis("hang", e, 0)
  ELSE IF e.panic THEN (IF e.plib THEN Mis(IF ~IsRules(e) /\ MeetsUnknownParam(e.bytes) THEN "panic-unknown-param-id" ELSE "panic", e, 0) ELSE Harness("panic"))
  ELSE IF r.err = "unknown" THEN (IF e.uerr THEN TRUE ELSE Mis("unkAccepted", e, Len(e.back)))
  ELSE IF r.err = "" THEN
       IF MarshalK(e, r.val) = e.bytes /\ WFK(e, r.val)
       THEN (IF e.uerr THEN Mis("canonRefused", e, Len(r.val))
             ELSE IF e.back = r.val THEN TRUE ELSE Mis("canonValue", e, Len(r.val)))
       ELSE (IF e.uerr THEN Div("spare/refused", e, 0)
             ELSE IF e.back = r.val THEN TRUE ELSE Div("spare/value", e, 0))
  ELSE (IF e.uerr THEN TRUE ELSE Div(r.err, e, "accepted"))

Check(e) ==
  CASE e.op \in {"RulesRoundTrip", "DescsRoundTrip"} -> CheckRoundTrip(e)
    [] e.op \in {"RulesUnmarshal", "DescsUnmarshal"} -> CheckUnmarshal(e)
    [] OTHER -> Harness("unknown op")

TInit == l = 1 /\ TLCSet(2, 0) /\ \A r \in 3..12 : TLCSet(r, 0)
TNext == /\ l <= Len(TraceLog)
         /\ (Check(TraceLog[l]) = TRUE)      \* as a value: TLC must not split the \/ inside into sub-actions
         /\ TLCSet(2, l)
         /\ l' = l + 1
Consumed == PrintT(<<"CONSUMED", TLCGet(2)>>)
==========================================================================
