------------------------------ MODULE Trace_C17 ------------------------------
(* Trace validation for C17.  One event per call of a converter of nasConvert (or one compact
   event per chunk of a full domain: `out` then holds the results for lo, lo+1, ...).
   The specification TimersRatesNames decides; the event only carries inputs and observed octets.
   Every event has the same keys:
     op, d, q, dst, txt, in, st, un, dlv, dlu, ulv, ulu, dir, lo, out, otxt, pan
   A panic (pan # "") is never an allowed observation for an input inside the statement's domain.
   MISMATCH lines: <<"MISMATCH", l, op, class, k, n>>  class = "" (not a recorded finding class)
   or the name of a recorded class (FindingClass: input predicate AND the recorded wrong value);
   k = first offending element of a chunk (0 for single events), n = how many in the chunk. *)
EXTENDS TimersRatesNames, TLC, Json
VARIABLES l
TraceLog == ndJsonDeserialize("trace.ndjson")

SetMin(S) == CHOOSE x \in S : \A y \in S : x <= y

(* ---- recorded wrong behaviours of the unchanged tree (known-finding classes) ---- *)
\* ModelsToSessionAMBR parses the value as a signed 16-bit integer: 32768..65535 are left as 0
AmbrDropped(v) == IF v >= 32768 THEN 0 ELSE v
AmbrKnown(dlv, dlu, ulv, ulu, o) ==
  /\ (dlv >= 32768 \/ ulv >= 32768)
  /\ o = AmbrEncode(AmbrDropped(dlv), dlu, AmbrDropped(ulv), ulu)
\* Full/ShortNetworkNameToNas emit one octet per character: the running shift index wraps after
\* eight characters without closing the septet group
RECURSIVE WrongPack(_, _, _, _)
WrongPack(name, i, buf, idx) ==          \* i: 0-based index of the next character
  IF i = Len(name) THEN buf
  ELSE LET c == name[i + 1] IN
       IF i = 0 THEN WrongPack(name, 1, <<c>>, idx)
       ELSE WrongPack(name, i + 1,
                      [buf EXCEPT ![i] = ((buf[i] % Pow2(idx + 1)) + c * Pow2(idx)) % 256] \o <<c \div Pow2(8 - idx)>>,
                      IF idx = 0 THEN 7 ELSE idx - 1)
NameKnown(name, contents) ==
  /\ Len(name) >= 8
  /\ contents = <<NameHeader(Len(name))>> \o WrongPack(name, 0, <<>>, 7)
\* EncodeLocalTimeZoneToNas subtracts the daylight-saving hours from the magnitude of a negative
\* zone; when the result crosses zero the negative number is BCD-coded as is
ZoneKnown(q, dst, o) ==
  LET e == EffectiveZone(q, dst) IN q < 0 /\ e > 0 /\ e < 16 /\ o = (16 - e) * 16 + 15

(* ---- per-operation verdicts ---- *)
InRange(e) == e.pan = ""
Off2Q(off) == IF off >= 0 THEN off \div 900 ELSE -((-off) \div 900)
StampOf(st) == [y |-> st[1], mo |-> st[2], d |-> st[3], h |-> st[4], mi |-> st[5], s |-> st[6], q |-> Off2Q(st[7])]
StampInDomain(st) == st[7] % 900 = 0 /\ ValidStamp(StampOf(st))

AmbrAt(e, i) == SubSeq(e.out, 6 * i + 1, 6 * i + 6)
\* chunk element i (0-based): the direction `dir` takes value lo+i, the other direction keeps its value
ChunkDlv(e, i) == IF e.dir = "dl" THEN e.lo + i ELSE e.dlv
ChunkUlv(e, i) == IF e.dir = "ul" THEN e.lo + i ELSE e.ulv

SingleOK(e) ==
  CASE e.op = "T2" -> e.pan = "" /\ Len(e.out) = 1 /\ (e.d \in 0..Timer2Max => Timer2OK(e.d, e.out[1]))
    [] e.op = "T3" -> e.pan = "" /\ Len(e.out) = 1 /\ (e.d \in 0..Timer3Max => Timer3OK(e.d, e.out[1]))
    [] e.op = "AMBR" -> e.pan = "" /\ e.out = AmbrEncode(e.dlv, e.dlu, e.ulv, e.ulu)
    [] e.op = "TZ" -> e.pan = "" /\ Len(e.out) = 1 /\
                      (EffectiveZone(e.q, e.dst) \in ZoneRange =>
                         ZoneValid(e.out[1]) /\ ZoneDecode(e.out[1]) = EffectiveZone(e.q, e.dst))
    [] e.op = "DST" -> e.pan = "" /\ Len(e.out) = 2 /\ e.out[2] = e.dst
    [] e.op = "TZDec" -> e.pan = "" /\ (ZoneValid(e.in[1]) => e.otxt = ZoneText(ZoneDecode(e.in[1])))
    [] e.op = "DSTDec" -> e.pan = "" /\ (e.in[1] \in DstRange => e.otxt = DstText(e.in[1]))
    [] e.op = "UT" -> e.pan = "" /\ (StampInDomain(e.st) =>
                         /\ StampWellFormed(e.out)
                         /\ StampDecode(e.out) = StampOf(e.st))
    [] e.op = "UTDec" -> e.pan = "" /\ (StampWellFormed(e.in) /\ ValidStamp(StampDecode(e.in)) =>
                         /\ StampInDomain(e.st)
                         /\ StampOf(e.st) = StampDecode(e.in)
                         /\ e.un = Instant(StampDecode(e.in)))
    [] e.op = "Name" -> e.pan = "" /\ Len(e.out) >= 1 /\ e.out[1] = Len(e.out) - 1 /\ NameOKAny(e.txt, Tail(e.out))
    [] OTHER -> FALSE
SingleKnown(e) ==
  CASE e.pan # "" -> ""
    [] e.op = "AMBR" /\ AmbrKnown(e.dlv, e.dlu, e.ulv, e.ulu, e.out) -> "value-ge-32768-dropped"
    [] e.op = "TZ" /\ Len(e.out) = 1 /\ ZoneKnown(e.q, e.dst, e.out[1]) -> "negative-zone-dst-crosses-zero"
    [] e.op = "Name" /\ Len(e.out) >= 1 /\ e.out[1] = Len(e.out) - 1 /\ NameKnown(e.txt, Tail(e.out)) -> "ge-8-chars-one-octet-per-char"
    [] OTHER -> ""

IsChunk(e) == e.op \in {"T2C", "T3C", "AMBRC"}
ChunkLen(e) == IF e.op = "AMBRC" THEN Len(e.out) \div 6 ELSE Len(e.out)
ElemOK(e, i) ==
  CASE e.op = "T2C" -> Timer2OK(e.lo + i, e.out[i + 1])
    [] e.op = "T3C" -> Timer3OK(e.lo + i, e.out[i + 1])
    [] e.op = "AMBRC" -> AmbrAt(e, i) = AmbrEncode(ChunkDlv(e, i), e.dlu, ChunkUlv(e, i), e.ulu)
ElemKnown(e, i) ==
  e.op = "AMBRC" /\ AmbrKnown(ChunkDlv(e, i), e.dlu, ChunkUlv(e, i), e.ulu, AmbrAt(e, i))

\* the Go time package and the specification's calendar must agree on the instant of the input
\* (a disagreement is a problem of the oracle, reported as SANITY, not a verdict about the library)
Sane(e) == e.op = "UT" /\ StampInDomain(e.st) => e.un = Instant(StampOf(e.st))

\* The report of an event is a SET of lines computed as an ordinary expression (TLC caches LET definitions
\* there, not inside an action; and both sides of a disjunction in an action are explored) and printed by the action.
Lines(e) ==
  (IF IsChunk(e) THEN
     IF e.pan # "" THEN {<<"MISMATCH", l, e.op, "", 0, 1>>}
     ELSE LET rows == {<<i, ElemOK(e, i), ElemKnown(e, i)>> : i \in 0..(ChunkLen(e) - 1)}
              known == {r[1] : r \in {x \in rows : ~x[2] /\ x[3]}}
              other == {r[1] : r \in {x \in rows : ~x[2] /\ ~x[3]}}
          IN (IF known = {} THEN {} ELSE {<<"MISMATCH", l, e.op, "value-ge-32768-dropped", SetMin(known), Cardinality(known)>>})
             \cup (IF other = {} THEN {} ELSE {<<"MISMATCH", l, e.op, "", SetMin(other), Cardinality(other)>>})
   ELSE IF SingleOK(e) THEN {} ELSE {<<"MISMATCH", l, e.op, SingleKnown(e), 0, 1>>})
  \cup (IF Sane(e) THEN {} ELSE {<<"MISMATCH", l, e.op, "SANITY", 0, 1>>})

TInit == l = 1 /\ TLCSet(2, 0)
TNext ==
  /\ l <= Len(TraceLog)
  /\ \A t \in Lines(TraceLog[l]) : PrintT(t)
  /\ TLCSet(2, l)
  /\ l' = l + 1
TSpec == TInit /\ [][TNext]_l
Consumed == PrintT(<<"CONSUMED", TLCGet(2)>>)
=============================================================================
