---------------------------- MODULE Trace_C16 ----------------------------
(* Trace validation for C16.  (Printed tuples are kept short: TLC wraps values longer than 80 columns.)  Events (harness/cmd/pco):
     PcoRoundTrip  units -> Marshal -> bytes -> UnMarshal -> back, err
     PcoUnMarshal  bytes -> UnMarshal -> back, err          (truncated / free / random inputs)
     PcoHeld       the result slice and the parsed object of the preceding round trip, re-read after two other lists went through
     PsiToBool     256 two-octet buffers -> 256 bitmaps (entries as 0/1)
     PsiToBuf      256 bitmaps -> 256 two-octet buffers
     ReactErrCause (information only)
   VERDICTS (MISMATCH): a panic inside the library or a hang; Marshal's octets differ from
   PcoGrammar!Marshal (first octet 0x80 separately); UnMarshal(Marshal(x)) # x; UnMarshal of any
   input yields units that are not, in order, the grammar's units of that input (contents taken
   from anywhere else than SubSeq(input, at, at+len-1)); an exact input refused or incompletely
   read; a bitmap/octet pair that does not follow bit i <-> bit (i mod 8) of octet (i div 8).
   INFORMATION (DIVERGE): on inexact inputs whether an error is returned and whether all complete
   units are delivered is not fixed by the property.
   Total: every event is consumed whatever it contains. *)
EXTENDS PcoGrammar, Psi, Json, TLC
VARIABLES l
TraceLog == ndJsonDeserialize("trace.ndjson")

Bools(s) == [i \in 1..Len(s) |-> s[i] = 1]
Ints(s)  == [i \in 1..Len(s) |-> IF s[i] THEN 1 ELSE 0]

Mis(cls, e, detail) == PrintT(<<"MISMATCH", l, e.op, cls, detail>>)
\* notes: at most 20 printed per class and shard (one TLC register per class)
Div(cls, e, detail) == LET r == IF cls = "accepted" THEN 3 ELSE IF cls = "unitsDropped" THEN 4 ELSE 5 IN
                       (TLCGet(r) >= 20 \/ PrintT(<<"DIVERGE", l, e.op, cls, detail>>)) /\ TLCSet(r, TLCGet(r) + 1)

WF(us) == \A k \in 1..Len(us) : us[k].len = Len(us[k].contents)

CheckRoundTrip(e) ==
  IF e.hang THEN Mis("hang", e, 0)
  ELSE IF e.panic THEN (IF e.plib THEN Mis("panic", e, 0) ELSE PrintT(<<"HARNESS", l, "panic">>))
  ELSE IF ~WF(e.units) THEN PrintT(<<"HARNESS", l, "ill-formed case">>)
  ELSE LET m == Marshal(e.units) IN
       /\ (Len(e.bytes) >= 1 /\ e.bytes[1] = 128) \/ Mis("first-octet", e, IF Len(e.bytes) = 0 THEN -1 ELSE e.bytes[1])
       /\ e.bytes = m \/ Mis("marshal-octets", e, Len(e.bytes) - Len(m))
       /\ (~e.err /\ e.back = e.units) \/ Mis("round-trip", e, IF e.err THEN -1 ELSE Len(e.back))

\* PcoHeld: the SAME slice and the SAME object the preceding round trip returned, read again after the library has marshalled and
\* parsed two other lists.  Results are values: they must still be what Marshal / UnMarshal defined when they were returned.
CheckHeld(e) ==
  IF e.hang \/ e.panic THEN TRUE                \* the disturbing calls are judged by their own round-trip events elsewhere
  ELSE IF ~WF(e.units) THEN PrintT(<<"HARNESS", l, "ill-formed case">>)
  ELSE /\ e.bytes = Marshal(e.units) \/ Mis("marshal-result-changed-after-return", e, Len(e.bytes))
       /\ (e.back = <<>> /\ e.units # <<>>) \/ e.back = e.units \/ Mis("unmarshal-result-changed-after-return", e, Len(e.back))

CheckUnMarshal(e) ==
  IF e.hang THEN Mis("hang", e, 0)
  ELSE IF e.panic THEN (IF e.plib THEN Mis("panic", e, 0) ELSE PrintT(<<"HARNESS", l, "panic">>))
  ELSE LET g == Units(e.bytes)
           gs == StripAll(g)
           inInput == /\ Len(e.back) <= Len(g)
                      /\ \A k \in 1..Len(e.back) :
                            /\ e.back[k].id = g[k].id /\ e.back[k].len = g[k].len
                            /\ e.back[k].contents = SubSeq(e.bytes, g[k].at, g[k].at + g[k].len - 1)
       IN
       /\ inInput \/ Mis("contents-not-in-input", e, Len(e.back))
       \* the object that parsed these octets is marshalled again: 0x80 first, then exactly the units it holds (whatever the
       \* input's own first octet was) - only when UnMarshal reported no error and the units it delivered are well formed
       /\ (e.err \/ ~WF(e.back) \/ e.re = Marshal(e.back)) \/ Mis("marshal-after-unmarshal", e, IF Len(e.re) = 0 THEN -1 ELSE e.re[1])
       /\ IF Exact(e.bytes) THEN (~e.err /\ e.back = gs) \/ Mis("exact-input-refused", e, IF e.err THEN -1 ELSE Len(e.back))
          ELSE /\ (e.back = gs) \/ ~inInput \/ Div("unitsDropped", e, Tail3(e.bytes))
               /\ e.err \/ Div("accepted", e, Tail3(e.bytes))

FirstBad(n, P(_)) == IF \E k \in 1..n : ~P(k) THEN CHOOSE k \in 1..n : ~P(k) /\ \A j \in 1..(k - 1) : P(j) ELSE 0

CheckPsiToBool(e) ==
  IF e.panic THEN (IF e.plib THEN Mis("panic", e, 0) ELSE PrintT(<<"HARNESS", l, "panic">>))
  ELSE LET ok(k) == Bools(e.out[k]) = SeqOfBitmap(BitmapOfOctets(e.in[k]))
           b == FirstBad(Len(e.in), ok) IN
       /\ Len(e.out) = Len(e.in) \/ Mis("bitmap", e, <<>>)
       /\ Len(e.out) # Len(e.in) \/ b = 0 \/ Mis("bitmap", e, b)

CheckPsiToBuf(e) ==
  IF e.panic THEN (IF e.plib THEN Mis("panic", e, 0) ELSE PrintT(<<"HARNESS", l, "panic">>))
  ELSE LET ok(k) == e.out[k] = OctetsOfBitmap(BitmapOfSeq(Bools(e.in[k])))
           b == FirstBad(Len(e.in), ok) IN
       /\ Len(e.out) = Len(e.in) \/ Mis("bitmap", e, <<>>)
       /\ Len(e.out) # Len(e.in) \/ b = 0 \/ Mis("bitmap", e, b)

CheckReact(e) ==
  IF e.panic THEN Div("panic", e, 0)
  ELSE e.out[1] = Interleave(e.ids, e.causes) \/ Div("not-interleaved", e, Len(e.ids))

Check(e) ==
  CASE e.op = "PcoRoundTrip"  -> CheckRoundTrip(e)
    [] e.op = "PcoUnMarshal"  -> CheckUnMarshal(e)
    [] e.op = "PcoHeld"       -> CheckHeld(e)
    [] e.op = "PsiToBool"     -> CheckPsiToBool(e)
    [] e.op = "PsiToBuf"      -> CheckPsiToBuf(e)
    [] e.op = "ReactErrCause" -> CheckReact(e)
    [] OTHER -> PrintT(<<"HARNESS", l, "unknown op">>)

TInit == l = 1 /\ v = 0 /\ TLCSet(2, 0) /\ TLCSet(3, 0) /\ TLCSet(4, 0) /\ TLCSet(5, 0)
TNext == /\ l <= Len(TraceLog)
         /\ (Check(TraceLog[l]) = TRUE)      \* as a value: TLC must not split the \/ inside into sub-actions
         /\ TLCSet(2, l)
         /\ l' = l + 1 /\ UNCHANGED v
Consumed == PrintT(<<"CONSUMED", TLCGet(2)>>)
==========================================================================
