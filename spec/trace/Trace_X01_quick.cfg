INIT TInit
NEXT TNext
CONSTANTS SqnMod = 256 OvfMod = 65536 Ctx <- TCtx Msgs <- Nothing Starts <- Nothing NetCap = 0 MaxSent = 0 EnvBudget = 0
          Env <- Nothing Skips <- Nothing MaxLead = 0 AllowWrap = TRUE Bits <- TBits ReflectCounts <- Nothing RefuseWrap = FALSE ConcreteEvery = 2
CHECK_DEADLOCK FALSE
POSTCONDITION Consumed
