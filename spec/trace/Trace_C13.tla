---------------------------- MODULE Trace_C13 ----------------------------
(* Trace validation for C13.  Every event is one call of a list converter of the library, logged at its return.
     library ENCODERS (SnssaiToNas, RejectedSnssaiToNas, RejectedNssaiToNas, TaiListToNas, PartialServiceAreaListToNas,
       LadnToNas): the specification's DECODER applied to the produced octets must give back exactly the input value -
       whatever legal encoding the library chose (TAI list type, partial lists);
     library DECODERS (SnssaiToModels, RequestedNssaiToModels, LadnToModels): the input octets were produced by the
       specification's encoders or at random; when the specification's decoder accepts them the library must return
       that value; when the NSSAI decoder rejects them (malformed lengths) the library must report an error.
   Every result is logged twice: read at once (ob / osn / odnn / on) and read again from the retained return values
   after later calls (hob / hosn / hodnn / hon, hc = number of those calls); the two readings must agree.
   Total: a mismatch prints <<"MISMATCH", l, op, class>> and the cursor moves on.  Inputs outside the domain
   (models that are no valid value) give no verdict and are counted. *)
EXTENDS AreaLists, Json, TLC
VARIABLES l
TraceLog == ndJsonDeserialize("trace.ndjson")
OK == "ok"
SKIP == "skip"

\* ------------------------------------------------------------------ model values of the events -> abstract values
SnOK(m)  == m.sst \in 0..255 /\ SdOK(m.sd)
SnAbs(m) == Plain(m.sst, SdOctets(m.sd))
AllSnOK(ms) == \A i \in 1..Len(ms) : SnOK(ms[i])
TaiJOK(t) == PlmnFromTexts(t.mcc, t.mnc).ok /\ TacOK(t.tac)
TaiAbs(t) == Tai(PlmnFromTexts(t.mcc, t.mnc).v, HexOctets(t.tac))
TaisOK(ts) == Len(ts) \in 1..MaxTais /\ \A i \in 1..Len(ts) : TaiJOK(ts[i])
TaisAbs(ts) == [i \in 1..Len(ts) |-> TaiAbs(ts[i])]
MapOf(v) == [sst |-> v.sst, sd |-> SdText(v.sd), h |-> Len(v.hsst),
             hsst |-> IF Len(v.hsst) = 1 THEN v.hsst[1] ELSE 0, hsd |-> SdText(v.hsd)]

JSnssaiToNas(e) ==
  LET m == e.sn[1]  d == NssaiDec(e.ob) IN
  IF ~SnOK(m) THEN SKIP ELSE IF e.panic THEN "panic"
  ELSE IF d.ok /\ d.v = <<SnAbs(m)>> THEN OK ELSE "not-decodable"
JRejectedSnssaiToNas(e) ==
  LET m == e.sn[1]  d == RejDec(e.ob) IN
  IF ~SnOK(m) \/ e.k[1] \notin 0..15 THEN SKIP ELSE IF e.panic THEN "panic"
  ELSE IF d.ok /\ d.v = <<[sst |-> m.sst, sd |-> SdOctets(m.sd), cause |-> e.k[1]]>> THEN OK ELSE "not-decodable"
JSnssaiToModels(e) ==
  LET d == NssaiDec(e.w) IN
  IF ~(d.ok /\ Len(d.v) = 1) THEN SKIP
  ELSE IF Len(d.v[1].hsst) = 1 THEN SKIP                       \* mapped parts cannot be held by the model type; see NoteOf
  ELSE IF e.panic THEN "panic"
  ELSE IF Len(e.osn) = 1 /\ e.osn[1].sst = d.v[1].sst /\ e.osn[1].sd = SdText(d.v[1].sd) THEN OK ELSE "wrong-value"
JRequestedNssaiToModels(e) ==
  LET d == NssaiDec(e.w) IN
  IF Len(e.w) > 255 THEN SKIP
  ELSE IF d.ok THEN (IF e.panic THEN "panic" ELSE IF e.err THEN "wellformed-rejected"
                     ELSE IF e.osn = [i \in 1..Len(d.v) |-> MapOf(d.v[i])] THEN OK ELSE "wrong-value")
  ELSE IF e.err THEN OK ELSE IF e.panic THEN "malformed-panic" ELSE "malformed-accepted"
JRejectedNssaiToNas(e) ==
  LET d == RejDec(e.ob)
      want == [i \in 1..Len(e.sn) |-> [sst |-> e.sn[i].sst, sd |-> SdOctets(e.sn[i].sd), cause |-> CausePlmn]]
              \o [i \in 1..Len(e.sn2) |-> [sst |-> e.sn2[i].sst, sd |-> SdOctets(e.sn2[i].sd), cause |-> CauseRegArea]]
  IN IF ~(AllSnOK(e.sn) /\ AllSnOK(e.sn2)) THEN SKIP ELSE IF e.panic THEN "panic"
     ELSE IF d.ok /\ d.v = want /\ e.on = <<Len(e.ob)>> THEN OK ELSE "not-decodable"
JTaiListToNas(e) ==
  LET d == TaiListDec(e.ob) IN
  IF ~TaisOK(e.tai) THEN SKIP ELSE IF e.panic THEN "panic"
  ELSE IF d.ok /\ d.v = TaisAbs(e.tai) THEN OK ELSE "not-decodable"

\* classification helper, NOT part of the specification: the listed finding "element count = number of areas"
FlatAreas(as) == Flatten([i \in 1..Len(as) |-> as[i]])
JServiceArea(e) ==
  LET tacs == FlatAreas(e.areas)
      p == PlmnFromTexts(e.tai[1].mcc, e.tai[1].mnc)
      n == Len(tacs)
      want == [na |-> 1 - e.k[1], tais |-> [i \in 1..n |-> Tai(p.v, HexOctets(tacs[i]))], whole |-> <<>>]
      d == SalDec(e.ob)
      fixed == [e.ob EXCEPT ![1] = (e.ob[1] - (e.ob[1] % 32)) + (n - 1)]
  IN IF ~(p.ok /\ n \in 1..MaxTais /\ e.k[1] \in {0, 1} /\ \A i \in 1..n : TacOK(tacs[i])) THEN SKIP
     ELSE IF e.panic THEN "panic"
     ELSE IF d.ok /\ d.v = want THEN OK
     ELSE IF Len(e.ob) >= 1 /\ e.ob[1] % 32 = Len(e.areas) /\ Len(e.areas) # n - 1 /\ SalDec(fixed).ok /\ SalDec(fixed).v = want
          THEN "count-is-number-of-areas"
     ELSE "not-decodable"
JLadnToNas(e) ==
  LET d == LadnInfoDec(e.ob) IN
  IF ~(TaisOK(e.tai) /\ Len(e.dnn) \in 1..MaxDnn /\ \A i \in 1..Len(e.dnn) : e.dnn[i] \in 0..127) THEN SKIP
  ELSE IF e.panic THEN "panic"
  ELSE IF d.ok /\ d.v = <<[dnn |-> e.dnn, tais |-> TaisAbs(e.tai)]>> THEN OK ELSE "not-decodable"

\* classification helper, NOT part of the specification: the listed finding about LadnToModels - a walker that starts
\* at the second octet, takes the octet it stands on as a length, copies that many octets from ITS OWN position and
\* advances by that many (never ending on a zero, out of bounds when the count overshoots).
RECURSIVE Off1(_, _, _)
Off1(b, i, acc) ==
  IF i > Len(b) THEN [kind |-> "list", v |-> acc]
  ELSE IF b[i] = 0 THEN [kind |-> "hang", v |-> <<>>]
  ELSE IF i + b[i] - 1 > Len(b) THEN [kind |-> "panic", v |-> <<>>]
  ELSE Off1(b, i + b[i], Append(acc, SubSeq(b, i, i + b[i] - 1)))
Off1Matches(e) == LET r == Off1(e.w, 2, <<>>) IN
                  CASE r.kind = "hang" -> e.hang [] r.kind = "panic" -> e.panic /\ ~e.hang [] OTHER -> ~e.hang /\ ~e.panic /\ e.odnn = r.v
JLadnToModels(e) ==
  LET d == LadnIndDec(e.w) IN
  IF ~d.ok THEN SKIP
  ELSE IF ~e.hang /\ ~e.panic /\ e.odnn = d.v THEN OK
  ELSE IF Off1Matches(e) THEN "offset-1-walk"
  ELSE IF e.hang THEN "hang" ELSE IF e.panic THEN "panic" ELSE "wrong-list"

Judge(e) ==
  CASE e.op = "SnssaiToNas" -> JSnssaiToNas(e)
    [] e.op = "RejectedSnssaiToNas" -> JRejectedSnssaiToNas(e)
    [] e.op = "SnssaiToModels" -> JSnssaiToModels(e)
    [] e.op = "RequestedNssaiToModels" -> JRequestedNssaiToModels(e)
    [] e.op = "RejectedNssaiToNas" -> JRejectedNssaiToNas(e)
    [] e.op = "TaiListToNas" -> JTaiListToNas(e)
    [] e.op = "PartialServiceAreaListToNas" -> JServiceArea(e)
    [] e.op = "LadnToNas" -> JLadnToNas(e)
    [] e.op = "LadnToModels" -> JLadnToModels(e)
    [] OTHER -> "unknown-op"

\* information only
NoteOf(e) ==
  CASE e.op = "SnssaiToModels" /\ ~e.panic /\ NssaiDec(e.w).ok /\ Len(NssaiDec(e.w).v) = 1 /\ Len(NssaiDec(e.w).v[1].sd) = 3
         /\ Len(NssaiDec(e.w).v[1].hsst) = 1 /\ Len(e.osn) = 1 /\ e.osn[1].sd = <<>> -> "snssaitomodels-drops-sd-of-mapped-forms"
    [] e.op = "TaiListToNas" /\ ~e.panic /\ TaisOK(e.tai) /\ Len(e.ob) >= 1 /\ (e.ob[1] \div 32) % 4 = 1 -> "tailist-uses-type-01"
    [] OTHER -> ""

\* A result is a value: what the caller reads from the returned slices / strings / structs after further calls of the
\* same function (with other arguments) and of other functions were made must be what it read when the call returned.
Held(e) == e.hob = e.ob /\ e.hosn = e.osn /\ e.hodnn = e.odnn /\ e.hon = e.on
TInit == l = 1 /\ TLCSet(2, 0) /\ TLCSet(3, 0) /\ TLCSet(4, 0) /\ TLCSet(5, 0)
TNext ==
  /\ l <= Len(TraceLog)
  /\ LET e == TraceLog[l]
         j == Judge(e)
         n == NoteOf(e)
     IN /\ CASE j = OK /\ Held(e) -> TLCSet(4, TLCGet(4) + 1)
             [] j = OK -> PrintT(<<"MISMATCH", l, e.op, "result-changed-after-return">>)
             [] j = SKIP -> TLCSet(5, TLCGet(5) + 1)
             [] OTHER -> PrintT(<<"MISMATCH", l, e.op, j>>)
        /\ IF n = "" \/ TLCGet(3) >= 5 THEN TRUE ELSE PrintT(<<"MISMATCH", l, "NOTE", n>>) /\ TLCSet(3, TLCGet(3) + 1)
        /\ IF l = Len(TraceLog) THEN PrintT(<<"MISMATCH", l, "STATS", TLCGet(4), TLCGet(5)>>) ELSE TRUE
  /\ TLCSet(2, l)
  /\ l' = l + 1
Consumed == PrintT(<<"CONSUMED", TLCGet(2)>>)
==========================================================================
