------------------------------ MODULE Trace_C18 ------------------------------
(* Trace validation for C18.  Every event is one observation of the real uePolicyContainer code,
   written by harness/cmd/uepol.  The specification is total: every event is consumed; what the
   specification does not allow is printed as <<"MISMATCH", l, op, class, ...>>.

   Build    a message built through the API (st), encoded, decoded again.
            enc must be UeMarshalMsg of the structure (PLMN octets per TS 24.008), the lengths
            left in the built structures and the decoded projection must be UeProjMsg of it, the
            decoded MCC/MNC the ones given; the IE's own Marshal/UnmarshalBinary likewise.
            The PLMN octets of every sublist are classified: TS 24.008 (fine), exactly the layout
            with the decimal digits of MCC and MNC in reversed significance (class plmn-reversed),
            anything else (plmn-octets-wrong); everything else is judged relative to the octets
            the built structures carry, so any further difference is still reported.
   PlmnRow  SetPlmnDigit for a row of (MCC, MNC): octets per TS 24.008, accepted on the whole
            domain MCC 100..999 x MNC 10..999, recovered by marshal + unmarshal.
   history  (TraceReset, HNew, HGrow, HAdopt, HEnc) ONE live structure is encoded, grown by fresh
            items, encoded again, replaced by the decoded one ...: the trace spec tracks the abstract
            value `cur`; every HEnc must be UeMarshalMsg of the current value, with every length
            computed from the content, and decode to it (the structure has no other state).
   decode   (DecodeMsg, ListUnmarshal, ContentUnmarshal, InstrsUnmarshal, PartsUnmarshal,
            ResultUnmarshal, RContentUnmarshal, ResultsUnmarshal) on arbitrary octets: no panic,
            no hang; when the octets are the encoding of a structure (strict parser accepts and
            the PLMN octets are digits) the decoder must deliver exactly that structure.
            A panic is classified instr-len-lt-2-panic only when it is raised in parseInstruction
            and a reading of the input reaches an instruction whose length field is below 2. *)
EXTENDS UePolicy, Json
VARIABLES l, cur, hbad
TraceLog == ndJsonDeserialize("trace.ndjson")

\* (kept short: TLC wraps printed tuples at 80 columns; no disjunctions around it: in an action a
\* disjunction is a choice and both branches would be evaluated)
Mis(op, cls, a) == PrintT(<< "MISMATCH", l, op, cls, a >>)
Chk(cond, op, cls, a) == IF cond THEN TRUE ELSE Mis(op, cls, a)

\* ------------------------------------------------------------------ the digit-reversed layout (known finding class)
\* MCC digits d1 d2 d3, MNC digits e1 e2 (e3): octet 1 = d2|d3, octet 2 = (e1 of a 3-digit MNC, else F)|d1,
\* octet 3 = second-to-last|last MNC digit
UePlmnReversed(mcc, mnc) ==
  << ((mcc % 100) \div 10) * 16 + (mcc % 10),
     (IF mnc < 100 THEN 15 ELSE mnc \div 100) * 16 + (mcc \div 100),
     ((mnc % 100) \div 10) * 16 + (mnc % 10) >>

\* ------------------------------------------------------------------ built messages
RECURSIVE MmOf(_)
MmOf(ss) == IF ss = << >> THEN << >> ELSE << << Head(ss).mcc, Head(ss).mnc >> >> \o MmOf(Tail(ss))
RECURSIVE InDomain(_)
InDomain(ss) == ss = << >> \/ (Head(ss).mcc \in 100..999 /\ Head(ss).mnc \in 10..999 /\ InDomain(Tail(ss)))

P7(p) == [pti |-> p.pti, type |-> p.type, iei |-> p.iei, len |-> p.len, subs |-> p.subs, srs |-> p.srs, cm |-> p.cm]
IEProj(m) == LET p == UeProjMsg(m) IN [iei |-> p.iei, len |-> p.len, subs |-> p.subs, srs |-> p.srs]
IEOf(p) == [iei |-> p.iei, len |-> p.len, subs |-> p.subs, srs |-> p.srs]
IEEnc(m) == IF m.type = 1 THEN UeMarshalIE(m.iei, UeMarshalSubs(m.subs)) ELSE UeMarshalIE(m.iei, UeMarshalSubRess(m.srs))

SetterOp(type) == IF type = 3 THEN "SubRes.SetPlmnDigit" ELSE "SubList.SetPlmnDigit"

\* everything but the PLMN layout, relative to the structure x
BuildRestOp(o, e, x, mm) ==
  LET p == UeProjMsg(x) IN
  /\ Chk(P7(e.built) = p, o, "length-not-content", 1)
  /\ Chk(e.perr \/ e.bmm = mm, o, "built-mccmnc", 0)      \* what the built entries report is what was set on each of them
  /\ IF e.derr THEN Mis(o, "decode-error", 0)
     ELSE /\ Chk(P7(e.dec) = p, o, "decode-not-equal", 0)
          /\ Chk(e.dmm = mm, o, "decode-mccmnc", 0)
  /\ IF x.type = 2 THEN TRUE
     ELSE IF e.lerr THEN Mis(o, "ie-error", 0)
     ELSE /\ Chk(e.lenc = IEEnc(x), o, "ie-octets-differ", 0)
          /\ Chk(IEOf(e.ldec) = IEProj(x), o, "ie-decode-not-equal", 0)
BuildRest(e, x) == BuildRestOp("Build", e, x, MmOf(IF e.st.type = 1 THEN e.st.subs ELSE e.st.srs))

\* the structure with the PLMN octets the built structures actually carry: the PLMN layout is judged
\* per sublist (TS 24.008 / digit-reversed / anything else), everything else relative to these octets
RECURSIVE SubsWith(_, _)
SubsWith(ss, ps) == IF ss = << >> THEN << >>
                    ELSE << [plmn |-> Head(ps).plmn, ins |-> Head(ss).ins] >> \o SubsWith(Tail(ss), Tail(ps))
RECURSIVE SrsWith(_, _)
SrsWith(ss, ps) == IF ss = << >> THEN << >>
                   ELSE << [plmn |-> Head(ps).plmn, rs |-> Head(ss).rs] >> \o SrsWith(Tail(ss), Tail(ps))
PlmnLayout(op, ss, ps) ==
  LET n == Len(ss)
      rev == {i \in 1..n : ps[i].plmn # UePlmnToOctets(ss[i].mcc, ss[i].mnc) /\ ps[i].plmn = UePlmnReversed(ss[i].mcc, ss[i].mnc)}
      oth == {i \in 1..n : ps[i].plmn # UePlmnToOctets(ss[i].mcc, ss[i].mnc) /\ ps[i].plmn # UePlmnReversed(ss[i].mcc, ss[i].mnc)}
  IN /\ (IF rev = {} THEN TRUE ELSE Mis(op, "plmn-reversed", CHOOSE i \in rev : \A j \in rev : i <= j))
     /\ (IF oth = {} THEN TRUE ELSE Mis(op, "plmn-octets-wrong", CHOOSE i \in oth : \A j \in oth : i <= j))
BuildCheck(e) ==
  IF ~UeKnownType(e.st.type) THEN TRUE                      \* other message types: totality only
  ELSE IF ~InDomain(e.st.subs) \/ ~InDomain(e.st.srs) THEN TRUE
  ELSE IF e.perr THEN Mis(SetterOp(e.st.type), "plmn-rejected", 0)
  ELSE IF e.eerr THEN Mis("Build", "encode-error", 0)
  ELSE IF Len(e.built.subs) # Len(e.st.subs) \/ Len(e.built.srs) # Len(e.st.srs) THEN Mis("Build", "octets-differ", 1)
  ELSE LET xo == UeMsg(e.st.pti, e.st.type, e.st.iei, SubsWith(e.st.subs, e.built.subs), SrsWith(e.st.srs, e.built.srs), e.st.cm) IN
       /\ PlmnLayout(SetterOp(e.st.type), IF e.st.type = 3 THEN e.st.srs ELSE e.st.subs, IF e.st.type = 3 THEN e.built.srs ELSE e.built.subs)
       /\ Chk(e.enc = UeMarshalMsg(xo), "Build", "octets-differ", 0)
       /\ BuildRest(e, xo)

\* ------------------------------------------------------------------ PLMN rows
PlmnClass(e, i) ==
  LET mcc == IF e.axis = "mcc" THEN e.fixed ELSE e.vary[i]
      mnc == IF e.axis = "mcc" THEN e.vary[i] ELSE e.fixed
      dom == mcc \in 100..999 /\ mnc \in 10..999 IN
  IF e.errs[i] THEN (IF dom THEN "plmn-rejected" ELSE "ok")        \* values the setter rejects are outside the domain
  ELSE IF ~(mcc \in 0..999 /\ mnc \in 0..999) THEN "ok"            \* accepted but outside 3-digit MCC / 2-3-digit MNC: no verdict
  ELSE IF e.octs[i] = UePlmnToOctets(mcc, mnc)
       THEN (IF e.rt[i] = << mcc, mnc >> /\ e.rto[i] = e.octs[i] THEN "ok" ELSE "plmn-not-recovered")
  ELSE IF e.octs[i] = UePlmnReversed(mcc, mnc)
       THEN (IF e.rt[i] = << mcc, mnc >> /\ e.rto[i] = e.octs[i] THEN "plmn-reversed" ELSE "plmn-not-recovered")
  ELSE "plmn-octets-wrong"
PlmnOp(e) == IF e.which = "res" THEN "SubRes.SetPlmnDigit" ELSE "SubList.SetPlmnDigit"
PlmnCheck(e) ==
  LET n == Len(e.vary) IN
  IF ~(Len(e.errs) = n /\ Len(e.octs) = n /\ Len(e.rt) = n /\ Len(e.rto) = n) THEN Mis(PlmnOp(e), "row-incomplete", 0)
  ELSE LET bad == {i \in 1..n : PlmnClass(e, i) # "ok"} IN
       IF bad = {} THEN TRUE
       ELSE LET First(c) == LET S == {i \in bad : PlmnClass(e, i) = c} IN      \* one line per class and row
                            IF S = {} THEN TRUE ELSE Mis(PlmnOp(e), c, CHOOSE j \in S : \A k \in S : j <= k)
            IN /\ First("plmn-reversed") /\ First("plmn-octets-wrong")
               /\ First("plmn-rejected") /\ First("plmn-not-recovered")

\* ------------------------------------------------------------------ decoding arbitrary octets
RECURSIVE AllPlmnDigits(_)
AllPlmnDigits(ss) == ss = << >> \/ (UePlmnWellFormed(Head(ss).plmn) /\ AllPlmnDigits(Tail(ss)))

\* A reading of the octets that reaches an instruction whose length is below 2 (the trigger of the
\* known finding).  Regions are the declared length or what is left, whichever is smaller.
RECURSIVE ShortInstrIn(_)
ShortInstrIn(b) ==                                   \* b: a sequence of instructions
  IF Len(b) < 4 THEN FALSE
  ELSE LET L == UeU16(b, 1) IN
       IF L < 2 THEN TRUE
       ELSE IF 2 + L >= Len(b) THEN FALSE ELSE ShortInstrIn(UeShorter(b, SubSeq(b, 3 + L, Len(b))))
RECURSIVE ShortInstrInSubs(_)
ShortInstrInSubs(b) ==                               \* b: a sequence of sublists
  IF Len(b) < 5 THEN FALSE
  ELSE LET L == (UeU16(b, 1) + 65536 - 3) % 65536    \* the implementation's 16-bit subtraction
           end == IF 5 + L > Len(b) THEN Len(b) ELSE 5 + L IN
       ShortInstrIn(SubSeq(b, 6, end)) \/ (end < Len(b) /\ ShortInstrInSubs(UeShorter(b, SubSeq(b, end + 1, Len(b)))))
ShortInstrReached(op, b) ==
  CASE op = "InstrsUnmarshal" -> ShortInstrIn(b)
    [] op = "ContentUnmarshal" -> ShortInstrInSubs(b)
    [] op = "ListUnmarshal" -> Len(b) >= 3 /\ 3 + UeU16(b, 2) <= Len(b) /\ ShortInstrInSubs(SubSeq(b, 4, 3 + UeU16(b, 2)))
    [] op = "DecodeMsg" -> Len(b) >= 5 /\ b[2] = 1 /\ 5 + UeU16(b, 4) <= Len(b) /\ ShortInstrInSubs(SubSeq(b, 6, 5 + UeU16(b, 4)))
    [] OTHER -> FALSE

\* the structure the octets encode, if they encode one: [ok, proj] restricted to the fields the op delivers
Wellformed(op, b) ==
  CASE op = "DecodeMsg" ->
         LET r == UeParseMsg(b) IN
         IF r.ok /\ AllPlmnDigits(r.v.subs) /\ AllPlmnDigits(r.v.srs) THEN [ok |-> TRUE, p |-> UeProjMsg(r.v)] ELSE [ok |-> FALSE, p |-> << >>]
    [] op = "ListUnmarshal" ->
         LET ie == UeParseIE(b) r == UeParseSubs(ie.content) IN
         IF ie.ok /\ ie.rest = << >> /\ r.ok /\ AllPlmnDigits(r.v)
         THEN [ok |-> TRUE, p |-> [iei |-> ie.iei, len |-> Len(ie.content), subs |-> UeProjSubs(r.v)]] ELSE [ok |-> FALSE, p |-> << >>]
    [] op = "ContentUnmarshal" ->
         LET r == UeParseSubs(b) IN
         IF r.ok /\ AllPlmnDigits(r.v) THEN [ok |-> TRUE, p |-> [subs |-> UeProjSubs(r.v)]] ELSE [ok |-> FALSE, p |-> << >>]
    [] op = "InstrsUnmarshal" ->
         LET r == UeParseInstrs(b) IN IF r.ok THEN [ok |-> TRUE, p |-> [ins |-> UeProjInstrs(r.v)]] ELSE [ok |-> FALSE, p |-> << >>]
    [] op = "PartsUnmarshal" ->
         LET r == UeParseParts(b) IN IF r.ok THEN [ok |-> TRUE, p |-> [parts |-> UeProjParts(r.v)]] ELSE [ok |-> FALSE, p |-> << >>]
    [] op = "ResultUnmarshal" ->
         LET ie == UeParseIE(b) r == UeParseSubRess(ie.content) IN
         IF ie.ok /\ ie.rest = << >> /\ r.ok /\ AllPlmnDigits(r.v)
         THEN [ok |-> TRUE, p |-> [iei |-> ie.iei, len |-> Len(ie.content), srs |-> UeProjSubRess(r.v)]] ELSE [ok |-> FALSE, p |-> << >>]
    [] op = "RContentUnmarshal" ->
         LET r == UeParseSubRess(b) IN
         IF r.ok /\ AllPlmnDigits(r.v) THEN [ok |-> TRUE, p |-> [srs |-> UeProjSubRess(r.v)]] ELSE [ok |-> FALSE, p |-> << >>]
    [] op = "ResultsUnmarshal" ->
         LET r == UeParseRess(b) IN IF r.ok THEN [ok |-> TRUE, p |-> [rs |-> r.v]] ELSE [ok |-> FALSE, p |-> << >>]
Observed(op, p) ==
  CASE op = "DecodeMsg" -> P7(p)
    [] op = "ListUnmarshal" -> [iei |-> p.iei, len |-> p.len, subs |-> p.subs]
    [] op = "ContentUnmarshal" -> [subs |-> p.subs]
    [] op = "InstrsUnmarshal" -> [ins |-> p.ins]
    [] op = "PartsUnmarshal" -> [parts |-> p.parts]
    [] op = "ResultUnmarshal" -> [iei |-> p.iei, len |-> p.len, srs |-> p.srs]
    [] op = "RContentUnmarshal" -> [srs |-> p.srs]
    [] op = "ResultsUnmarshal" -> [rs |-> p.rs]
DecodeOps == {"DecodeMsg", "ListUnmarshal", "ContentUnmarshal", "InstrsUnmarshal", "PartsUnmarshal",
              "ResultUnmarshal", "RContentUnmarshal", "ResultsUnmarshal"}
DecodeCheck(e) ==
  LET w == Wellformed(e.op, e.in) IN
  IF ~w.ok THEN (IF e.err THEN TRUE ELSE TLCSet(3, TLCGet(3) + 1))     \* information: malformed input accepted leniently
  ELSE IF e.err THEN Mis(e.op, "encoding-rejected", Len(e.in))
  ELSE Chk(Observed(e.op, e.proj) = w.p, e.op, "decode-not-equal", Len(e.in))

\* ------------------------------------------------------------------ histories on one live structure
\* cur = [kind, val]: the abstract value of the live structure (UePolicyHistory: no state besides the value).
\* HNew sets it, HGrow appends the fresh item, HAdopt keeps it (the decoded structure equals the encoded one),
\* HEnc must produce Marshal of the CURRENT value, lengths from content, and decode to it.  After a
\* mismatch the rest of the history is not judged (hbad) - the abstract value is no longer known.
HistOps == {"TraceReset", "HNew", "HGrow", "HAdopt", "HEnc"}
HEncCheck(e) ==
  IF hbad THEN TRUE
  ELSE IF cur.kind = "none" \/ e.st.type # (IF cur.kind = "list" THEN 1 ELSE 3) THEN Mis("HEnc", "bad-history", 0)
  ELSE IF e.eerr THEN Mis("HEnc", "encode-error", 0)
  ELSE LET x == UeMsg(e.st.pti, e.st.type, e.st.iei,
                      IF cur.kind = "list" THEN UeSubsOfApi(cur.val) ELSE << >>,
                      IF cur.kind = "list" THEN << >> ELSE UeSrsOfApi(cur.val), e.st.cm) IN
       /\ Chk(e.enc = UeMarshalMsg(x), "HEnc", "octets-differ", Len(e.enc))
       /\ BuildRestOp("HEnc", e, x, MmOf(cur.val))
HEncOK(e) ==      \* silent version of the same judgement, for hbad
  /\ cur.kind # "none" /\ ~e.eerr /\ ~e.derr
  /\ LET x == UeMsg(e.st.pti, e.st.type, e.st.iei,
                    IF cur.kind = "list" THEN UeSubsOfApi(cur.val) ELSE << >>,
                    IF cur.kind = "list" THEN << >> ELSE UeSrsOfApi(cur.val), e.st.cm) IN
     e.enc = UeMarshalMsg(x) /\ P7(e.built) = UeProjMsg(x) /\ P7(e.dec) = UeProjMsg(x)
HistCheck(e) ==
  CASE e.op = "HNew" -> Chk(e.ok, "HNew", "build-failed", 0)
    [] e.op = "HGrow" -> IF hbad THEN TRUE
                         ELSE IF cur.kind = "none" \/ e.level \notin UeGrowLevels(cur.kind) \/ ~UeGrowOK(cur.val, e.level, e.s, e.i)
                              THEN Mis("HGrow", "bad-history", 0)
                              ELSE Chk(e.ok, "HGrow", "append-failed", 0)
    [] e.op = "HAdopt" -> IF hbad THEN TRUE ELSE Chk(e.ok, "HAdopt", "decode-error", 0)
    [] e.op = "HEnc" -> HEncCheck(e)
    [] OTHER -> TRUE
CurNext(e) ==
  CASE e.op = "TraceReset" -> [kind |-> "none", val |-> << >>]
    [] e.op = "HNew" -> [kind |-> e.hkind, val |-> e.val]
    [] e.op = "HGrow" /\ ~hbad /\ cur.kind # "none" /\ e.level \in UeGrowLevels(cur.kind) /\ UeGrowOK(cur.val, e.level, e.s, e.i) /\ e.ok ->
         [kind |-> cur.kind, val |-> UeGrow(cur.val, e.level, e.s, e.i, e.item)]
    [] OTHER -> cur
BadNext(e) ==
  CASE e.op \in {"TraceReset", "HNew"} -> (e.op = "HNew" /\ ~e.ok)
    [] e.op = "HGrow" -> hbad \/ ~e.ok \/ e.panic \/ e.hang \/ cur.kind = "none" \/ e.level \notin UeGrowLevels(cur.kind) \/ ~UeGrowOK(cur.val, e.level, e.s, e.i)
    [] e.op = "HAdopt" -> hbad \/ ~e.ok \/ e.panic \/ e.hang
    [] e.op = "HEnc" -> hbad \/ e.panic \/ e.hang \/ ~HEncOK(e)
    [] OTHER -> hbad

ParseInstructionFn == "github.com/free5gc/nas/uePolicyContainer.parseInstruction"
Totality(e) ==
  /\ Chk(~e.hang, e.op, "hang", 0)
  /\ IF ~e.panic THEN TRUE
     ELSE IF ~e.lib THEN Mis(e.op, "panic-nonlib", 0)
     ELSE IF e.op \in DecodeOps /\ e.fn = ParseInstructionFn /\ ShortInstrReached(e.op, e.in)
          THEN Mis("parseInstruction", "instr-len-lt-2-panic", Len(e.in))
          ELSE Mis(e.op, "panic", 0)

TInit == l = 1 /\ cur = [kind |-> "none", val |-> << >>] /\ hbad = FALSE /\ TLCSet(2, 0) /\ TLCSet(3, 0)
TNext ==
  /\ l <= Len(TraceLog)
  /\ LET e == TraceLog[l] IN
     /\ Totality(e)
     /\ IF e.panic \/ e.hang THEN TRUE
        ELSE CASE e.op = "Build" -> BuildCheck(e)
               [] e.op = "PlmnRow" -> PlmnCheck(e)
               [] e.op \in DecodeOps -> DecodeCheck(e)
               [] e.op \in HistOps -> HistCheck(e)
               [] OTHER -> Mis("event", "unknown-event", 0)
     /\ cur' = CurNext(e) /\ hbad' = BadNext(e)
  /\ TLCSet(2, l)
  /\ l' = l + 1
TSpec == TInit /\ [][TNext]_<< l, cur, hbad >>
\* information only (not a verdict): how many malformed inputs were accepted leniently
Consumed == /\ PrintT(<< "CONSUMED", TLCGet(2) >>)
            /\ (TLCGet(3) = 0 \/ PrintT(<< "MISMATCH", TLCGet(2), "INFO", "lenient-accept", TLCGet(3) >>))
=============================================================================
