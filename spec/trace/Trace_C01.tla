------------------------------- MODULE Trace_C01 -------------------------------
(* C01: every observed decode call terminated (the driver's watchdog reports hangs separately), did not
   panic, and allocated no more than a small linear function of the input length plus one maximum-size
   element.  The bound is the property's; its constants were calibrated on the unchanged tree with a wide
   margin (DESIGN C01-B): 16 octets per input octet + 3 x 64 KiB + 8 KiB.
   Where the input is carried in the event, the table-driven decoder is run on it too: it must terminate
   (it does, by construction) and accept/reject agreement is reported as INFORMATION only (C04 judges it). *)
EXTENDS TraceCodecLib
VARIABLE l
AllocLimit(n) == 16 * n + 3 * 65536 + 8192
Check(e) ==
  IF e.op # "Dec" THEN "ok"
  ELSE IF e.panic THEN "panic"
  ELSE IF e.alloc > AllocLimit(e.n) THEN "over-allocation"
  ELSE "ok"
Info(e) == (e.op = "Dec" /\ ~e.panic /\ e.n > 0 /\ Len(e.inp) = e.n) => (DecodeEntry(e.entry, e.bm, e.inp).ok = e.ok)
Init == l = 1 /\ TLCSet(2, 0)
Next == /\ l <= Len(TraceLog)
        /\ LET c == Check(TraceLog[l]) IN
           IF c = "ok" THEN TRUE ELSE PrintT(<<"MISMATCH", l, c>>)
        /\ IF Info(TraceLog[l]) THEN TRUE ELSE PrintT(<<"NOTE", l, "accept-reject-differs-from-table-decoder">>)
        /\ TLCSet(2, l) /\ l' = l + 1
Consumed == PrintT(<<"CONSUMED", TLCGet(2)>>)
=================================================================================
