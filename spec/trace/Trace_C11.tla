----------------------------- MODULE Trace_C11 -----------------------------
(* Trace validation for C11.  One event per public call on a real security.Count, logged at its
   return: the operation, its arguments and, for the three reads, the value returned (`ret`).
   NOTHING else is read by the driver: which reads happen, when and in which order is part of the
   history (chosen by TLC's behaviours and by the seeded recorder), because a read is an operation
   of the machine - an implementation whose Get repairs or damages the state must not be helped by
   an observation after every step.
   The spec tracks the counter value `c` of NasCount across the events (writes: c' = Apply(op, a, b, c);
   reads: c' = c) and judges every read against it:
       Get() = c     SQN() = c mod 256     Overflow() = c div 256
   so "reads never change the value" shows as a later read disagreeing with the tracked value.
   VERDICT = values returned by the public reads only; the raw 32-bit word (rawhi, rawlo, verif hook,
   logged after every call) is INFORMATION (NOTE when its low 24 bits differ from c).
   SetRaw (hook) places the counter; New is the zero value, whose first Get establishes c.
   Stateless events:
     Apply  : place(pre) ; fn(a, b) ; SQN, Overflow, Get, SQN, Overflow     expected Apply(fn, a, b, pre)
     Digest : weighted sums modulo three primes of the implementation's function table
              x |-> value read after fn(a, b) from state x, over chunk k = k*65536 .. k*65536+65535,
              compared with the same fold of the specification operator (DESIGN 4.3); three tables:
              Get, Overflow*256+SQN read before that Get, and the same read after it.
   The spec is total: a mismatch is printed, the state is resynchronised on the observation and
   only the first mismatch of a history (up to the next TraceReset) is reported. *)
EXTENDS NasCount, Json, TLC, Sequences, FiniteSetsExt
VARIABLES l, bad
TraceLog == ndJsonDeserialize("trace.ndjson")
tvars == <<c, l, bad>>

P1 == 46337
P2 == 46327
P3 == 46309
W(x, p) == 1 + (x % (p - 1))            \* weight in 1..p-1, never 0 modulo p
ChunkSet(k) == (k * 65536)..(k * 65536 + 65535)
Dig(fn, a, b, k, p) ==
  CASE fn = "AddOne"      -> FoldSet(LAMBDA x, acc : (acc + W(x, p) * (AddOneF(x) % p)) % p, 0, ChunkSet(k))
    [] fn = "AddRun"      -> FoldSet(LAMBDA x, acc : (acc + W(x, p) * (AddRunF(x, a) % p)) % p, 0, ChunkSet(k))
    [] fn = "SetSQN"      -> FoldSet(LAMBDA x, acc : (acc + W(x, p) * (SetSQNF(x, a) % p)) % p, 0, ChunkSet(k))
    [] fn = "SetOverflow" -> FoldSet(LAMBDA x, acc : (acc + W(x, p) * (SetOverflowF(x, a) % p)) % p, 0, ChunkSet(k))
    [] fn = "Set"         -> FoldSet(LAMBDA x, acc : (acc + W(x, p) * (SetF(a, b) % p)) % p, 0, ChunkSet(k))
    [] OTHER              -> FoldSet(LAMBDA x, acc : (acc + W(x, p) * (x % p)) % p, 0, ChunkSet(k))
DigestOK(e) == LET d == <<Dig(e.fn, e.a, e.b, e.chunk, P1), Dig(e.fn, e.a, e.b, e.chunk, P2), Dig(e.fn, e.a, e.b, e.chunk, P3)>>
               IN e.sums = d /\ e.sums2 = d /\ e.sums3 = d

Reads  == {"Get", "SQN", "Overflow"}
Writes == {"Set", "SetSQN", "SetOverflow", "AddOne"}
Known == c >= 0
\* what a read must return when the counter holds v
ReadOf(op, v) == CASE op = "Get" -> v [] op = "SQN" -> SqnOf(v) [] op = "Overflow" -> OvfOf(v) [] OTHER -> -1
InRange(op, r) == CASE op = "Get" -> r \in 0..(M - 1) [] op = "SQN" -> r \in 0..255 [] op = "Overflow" -> r \in 0..65535 [] OTHER -> FALSE
\* Apply events carry a whole observation
Shows(e, v) == /\ e.get = v /\ e.sqn = SqnOf(v) /\ e.ovf = OvfOf(v)
               /\ e.sqn2 = SqnOf(v) /\ e.ovf2 = OvfOf(v)
               /\ e.fn \in Reads => e.ret = ReadOf(e.fn, v)
Expected(e) ==
  CASE e.op = "Apply"  -> Apply(e.fn, e.a, e.b, e.pre)
    [] e.op \in Reads  -> IF Known THEN ReadOf(e.op, c) ELSE -1
    [] OTHER -> -1
Accept(e) ==
  CASE e.op \in {"TraceReset", "New", "SetRaw"} \/ e.op \in Writes -> TRUE
    [] e.op = "Digest" -> DigestOK(e)
    [] e.op = "Apply"  -> Shows(e, Expected(e))
    [] e.op \in Reads  -> IF Known THEN e.ret = ReadOf(e.op, c) ELSE InRange(e.op, e.ret)
    [] OTHER -> FALSE
Stateless(e) == e.op \in {"Digest", "Apply"}
\* the value after the event; after a rejected read: resynchronised on what was returned
Resync(e) == CASE ~InRange(e.op, e.ret) -> c
               [] e.op = "Get" -> e.ret
               [] e.op = "SQN" -> IF Known THEN OvfOf(c) * 256 + e.ret ELSE c
               [] OTHER        -> IF Known THEN e.ret * 256 + SqnOf(c) ELSE c
CNext(e) ==
  CASE e.op \in {"TraceReset", "New"} -> -1
    [] Stateless(e) -> c
    [] e.op = "SetRaw" -> e.a
    [] e.op = "Set" -> SetF(e.a, e.b)
    [] e.op \in Writes -> IF Known THEN Apply(e.op, e.a, e.b, c) ELSE c
    [] e.op \in Reads -> IF Known /\ Accept(e) THEN c ELSE Resync(e)
    [] OTHER -> c
RawAgrees(e) == e.rawhi < 0 \/ Stateless(e) \/ e.op = "TraceReset" \/ CNext(e) < 0 \/ (e.rawhi % 256) * 65536 + e.rawlo = CNext(e)

TInit == l = 1 /\ c = -1 /\ bad = FALSE /\ TLCSet(2, 0) /\ TLCSet(3, 0)
TNext ==
  /\ l <= Len(TraceLog)
  /\ LET e == TraceLog[l] IN
     /\ IF Accept(e) \/ (bad /\ ~Stateless(e)) THEN bad' = (bad /\ e.op # "TraceReset")
        ELSE /\ PrintT(<<"MISMATCH", l, (IF e.op = "Apply" THEN e.pre ELSE c), Expected(e)>>)   \* short: TLC wraps long lines
             /\ bad' = (bad \/ ~Stateless(e))
     /\ IF RawAgrees(e) THEN TRUE
        ELSE (IF TLCGet(3) >= 10 THEN TRUE ELSE PrintT(<<"NOTE", l, e.op, e.rawhi, e.rawlo, CNext(e)>>)) /\ TLCSet(3, TLCGet(3) + 1)
     /\ c' = CNext(e)
  /\ TLCSet(2, l)
  /\ l' = l + 1
Consumed == PrintT(<<"CONSUMED", TLCGet(2)>>)
=============================================================================
