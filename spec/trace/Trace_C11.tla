----------------------------- MODULE Trace_C11 -----------------------------
(* Trace validation for C11.  One event per public call on a real security.Count, logged at its
   return together with what the three read operations report afterwards:
     sqn, ovf   SQN() and Overflow() right after the call
     get        Get()
     sqn2, ovf2 SQN() and Overflow() once more (reads must not change the value)
     ret        the value returned by the call itself when it is a read, else -1
   The spec tracks the counter value `c` of NasCount; an observation is accepted iff all reads
   show Apply(op, a, b, c).  VERDICT = public API values only; the raw 32-bit word (rawhi, rawlo,
   from the verif hook) is INFORMATION (NOTE when its low 24 bits differ from c).
   Stateless events:
     Apply  : Set(pre) ; fn(a, b) ; reads       expected Apply(fn, a, b, pre)
     Digest : weighted sums modulo three primes of the implementation's function table
              x |-> value read after fn(a, b) from state x, over chunk k = k*65536 .. k*65536+65535,
              compared with the same fold of the specification operator (DESIGN 4.3).
   The spec is total: a mismatch is printed, the state is resynchronised on the observation and
   only the first mismatch of a history (up to the next TraceReset) is reported. *)
EXTENDS NasCount, Json, TLC, Sequences, FiniteSetsExt
VARIABLES l, bad
TraceLog == ndJsonDeserialize("trace.ndjson")
tvars == <<c, l, bad>>

P1 == 46337
P2 == 46327
P3 == 46309
W(x, p) == 1 + (x % (p - 1))            \* weight in 1..p-1, never 0 modulo p
ChunkSet(k) == (k * 65536)..(k * 65536 + 65535)
Dig(fn, a, b, k, p) ==
  CASE fn = "AddOne"      -> FoldSet(LAMBDA x, acc : (acc + W(x, p) * (AddOneF(x) % p)) % p, 0, ChunkSet(k))
    [] fn = "SetSQN"      -> FoldSet(LAMBDA x, acc : (acc + W(x, p) * (SetSQNF(x, a) % p)) % p, 0, ChunkSet(k))
    [] fn = "SetOverflow" -> FoldSet(LAMBDA x, acc : (acc + W(x, p) * (SetOverflowF(x, a) % p)) % p, 0, ChunkSet(k))
    [] fn = "Set"         -> FoldSet(LAMBDA x, acc : (acc + W(x, p) * (SetF(a, b) % p)) % p, 0, ChunkSet(k))
    [] OTHER              -> FoldSet(LAMBDA x, acc : (acc + W(x, p) * (x % p)) % p, 0, ChunkSet(k))
DigestOK(e) == LET d == <<Dig(e.fn, e.a, e.b, e.chunk, P1), Dig(e.fn, e.a, e.b, e.chunk, P2), Dig(e.fn, e.a, e.b, e.chunk, P3)>>
               IN e.sums = d /\ e.sums2 = d

Reads == {"Get", "SQN", "Overflow"}
Ops   == {"Set", "SetSQN", "SetOverflow", "AddOne"} \cup Reads
\* all reads after the call show value v
Shows(e, v) == /\ e.get = v /\ e.sqn = SqnOf(v) /\ e.ovf = OvfOf(v)
               /\ e.sqn2 = SqnOf(v) /\ e.ovf2 = OvfOf(v)
RetOK(op, ret, v) == CASE op = "Get" -> ret = v
                       [] op = "SQN" -> ret = SqnOf(v)
                       [] op = "Overflow" -> ret = OvfOf(v)
                       [] OTHER -> TRUE
\* the observation alone satisfies the invariant of the property
SelfConsistent(e) == e.get = e.ovf * 256 + e.sqn /\ e.get \in 0..(M - 1) /\ e.sqn \in 0..255 /\ e.ovf \in 0..65535
                     /\ e.sqn2 = e.sqn /\ e.ovf2 = e.ovf
Known == c >= 0
Expected(e) ==
  CASE e.op = "New"    -> (IF SelfConsistent(e) THEN e.get ELSE 0)      \* a fresh Count: any consistent value
    [] e.op = "SetRaw" -> e.a
    [] e.op = "Apply"  -> Apply(e.fn, e.a, e.b, e.pre)
    [] e.op \in Ops    -> IF Known \/ e.op = "Set" THEN Apply(e.op, e.a, e.b, c)
                          ELSE (IF SelfConsistent(e) THEN e.get ELSE 0)
    [] OTHER -> -1
Accept(e) ==
  CASE e.op \in {"TraceReset"} -> TRUE
    [] e.op = "Digest" -> DigestOK(e)
    [] e.op = "New"    -> SelfConsistent(e)
    [] e.op = "Apply"  -> Shows(e, Expected(e)) /\ RetOK(e.fn, e.ret, Expected(e))
    [] e.op = "SetRaw" \/ e.op \in Ops -> Shows(e, Expected(e)) /\ RetOK(e.op, e.ret, Expected(e))
    [] OTHER -> FALSE
Stateless(e) == e.op \in {"Digest", "Apply"}
CNext(e) ==
  CASE e.op = "TraceReset" -> -1
    [] Stateless(e) -> c
    [] Accept(e) -> Expected(e)
    [] OTHER -> (IF SelfConsistent(e) THEN e.get ELSE Expected(e))       \* resynchronise
RawAgrees(e) == e.rawhi < 0 \/ Stateless(e) \/ e.op = "TraceReset" \/ (e.rawhi % 256) * 65536 + e.rawlo = CNext(e)

TInit == l = 1 /\ c = -1 /\ bad = FALSE /\ TLCSet(2, 0) /\ TLCSet(3, 0)
TNext ==
  /\ l <= Len(TraceLog)
  /\ LET e == TraceLog[l] IN
     /\ IF Accept(e) \/ (bad /\ ~Stateless(e)) THEN bad' = (bad /\ e.op # "TraceReset")
        ELSE /\ PrintT(<<"MISMATCH", l, (IF e.op = "Apply" THEN e.pre ELSE c), Expected(e)>>)   \* short: TLC wraps long lines
             /\ bad' = (bad \/ ~Stateless(e))
     /\ IF RawAgrees(e) THEN TRUE
        ELSE (TLCGet(3) >= 10 \/ PrintT(<<"NOTE", l, e.op, e.rawhi, e.rawlo, CNext(e)>>)) /\ TLCSet(3, TLCGet(3) + 1)
     /\ c' = CNext(e)
  /\ TLCSet(2, l)
  /\ l' = l + 1
Consumed == PrintT(<<"CONSUMED", TLCGet(2)>>)
=============================================================================
