INIT TInit
NEXT TNext
CONSTANTS SqnArgs = {} OvfArgs = {} SetArgs = {} Starts = {}
CHECK_DEADLOCK FALSE
POSTCONDITION Consumed
