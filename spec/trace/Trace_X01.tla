----------------------------- MODULE Trace_X01 -----------------------------
(* Trace validation for X01.  Every event is one action of spec/NasSecureChannel.tla performed by the driver
   harness/cmd/channel with the REAL library (security.Count, NASEncrypt, NASMacCalculate, the
   SecurityProtected5GSNASMessage envelope, PlainNasEncode/PlainNasDecode), logged with the wire octets, the
   receiver's decision, the delivered plaintext and both counters.  The trace specification runs the abstract
   channel (real moduli 256 / 65536) next to it and checks every observation:
     Send / Skip / Reflect   wire layout 7E | 02 | MAC(4) | SQN | ciphertext, SQN octet = SQN of the count used,
                             length 7 + plain; NEA0 leaves the plaintext, NIA0 gives a zero MAC; for plain messages of
                             at most ShortMax octets the ciphertext and the MAC are recomputed from the standard
                             algorithms (ChanConcrete; at every ConcreteEvery-th event); the sender count afterwards (Get, SQN, Overflow)
     Deliver                 accept / reject exactly as the abstract Unprotect decides; on acceptance of a clean wire
                             the delivered octets are the octets that were sent, they decode, and encode back to
                             themselves; the receiver count afterwards (unchanged on rejection)
     Drop/Dup/Reorder/Tamper bookkeeping of the network (the driver's own doing: kind "harness")
   Total: a disagreement prints MISMATCH and the tracked state is resynchronised on the observation. *)
EXTENDS NasSecureChannel, ChanConcrete, Json
CONSTANT ConcreteEvery      \* recompute MAC and ciphertext at every k-th event only (1 = always; the quick tier uses 2)
VARIABLES l, actx, cnet, bad
TraceLog == ndJsonDeserialize("trace.ndjson")
tvars == <<sc, rc, net, sent, dlv, rej, budget, wrapped, last, l, actx, cnet, bad>>
ShortMax == 32
TCtx == [nia |-> 0, nea |-> 0, bearer |-> 0, dir |-> 0]
TBits == [hdr |-> {}, mac |-> {}, sqn |-> {}, ct |-> {}]
Nothing == {}

Ct(w) == SubSeq(w, 8, Len(w))
MacOct(w) == SubSeq(w, 3, 6)
\* position of bit b of field f in a concrete wire: <<octet (1-based), mask>>, and the normalised symbolic position
NormBit(f, b, ctlen) == CASE f = "hdr" -> b % 16 [] f = "mac" -> b % 32 [] f = "sqn" -> b % 8 [] OTHER -> b % (8 * ctlen)
BitPos(f, nb) == CASE f = "hdr" -> <<1 + (nb \div 8), 2^(7 - (nb % 8))>>
                   [] f = "mac" -> <<3 + (nb \div 8), 2^(7 - (nb % 8))>>
                   [] f = "sqn" -> <<7, 2^nb>>
                   [] OTHER     -> <<8 + (nb \div 8), 2^(7 - (nb % 8))>>
FlipOct(w, p) == [w EXCEPT ![p[1]] = @ ^^ p[2]]

\* ---- what a freshly protected wire must look like: set of complaint kinds
WireProblems(e, cx, dir, cnt) ==
  LET w == e.wire  p == e.plain  n == Len(p) IN
  IF e.panic THEN {"panic"} ELSE IF e.err # "" THEN {"error"} ELSE
  IF Len(w) # 7 + n \/ n = 0 THEN {"length"} ELSE
     (IF w[1] = 126 /\ w[2] = 2 THEN {} ELSE {"header"})
     \cup (IF w[7] = SqnOf(cnt) THEN {} ELSE {"sqn"})
     \cup (IF cx.nea = 0 /\ Ct(w) # p THEN {"nea0"} ELSE {})
     \cup (IF cx.nia = 0 /\ MacOct(w) # <<0, 0, 0, 0>> THEN {"nia0"} ELSE {})
     \cup (IF ChanHasConcrete /\ n <= ShortMax /\ l % ConcreteEvery = 0
           THEN LET ct == ChanCipher(cx.nea, actx.kenc, cnt, cx.bearer, dir, p) IN
                (IF Ct(w) = ct THEN {} ELSE {"cipher"})
                \cup (IF MacOct(w) = ChanMac(cx.nia, actx.kint, cnt, cx.bearer, dir, w[7], Ct(w)) THEN {} ELSE {"mac"})
           ELSE {})
SenderIs(e, c) == e.sget = c /\ e.ssqn = SqnOf(c) /\ e.sovf = OvfOf(c)
ReceiverIs(e, c) == e.rget = c /\ e.rsqn = SqnOf(c) /\ e.rovf = OvfOf(c)
CountProblems(e, s, r) == (IF SenderIs(e, s) THEN {} ELSE {"sender-count"}) \cup (IF ReceiverIs(e, r) THEN {} ELSE {"receiver-count"})
IdxOK(e) == e.i \in 1..Len(net)

\* ---- per event: complaints and the next tracked state
Cx == [nia |-> actx.nia, nea |-> actx.nea, bearer |-> actx.bearer, dir |-> actx.dir]
DeliverProblems(e) ==
  LET w == net[1]  r == Unprotect(Cx, rc, w) IN
  IF e.panic THEN {"panic"} ELSE IF e.err # "" THEN {"error"} ELSE
  (IF e.wire = cnet[1] THEN {} ELSE {"harness"})
  \cup (IF e.ok = r.ok THEN {} ELSE {IF e.ok THEN "accepted" ELSE "rejected"})
  \cup (IF e.ok /\ r.ok /\ Clean(r.pt)
        THEN (IF e.plain = r.pt.pl THEN {} ELSE {"plaintext"})
             \cup (IF e.dec /\ e.reenc = e.plain THEN {} ELSE {"decode"})
        ELSE {})
  \cup (IF e.ok /\ r.ok /\ ~Clean(r.pt) /\ ChanHasConcrete /\ Len(cnet[1]) - 7 <= ShortMax /\ Len(cnet[1]) > 7
        THEN (IF e.plain = ChanCipher(Cx.nea, actx.kenc, r.est, Cx.bearer, Cx.dir, Ct(cnet[1])) THEN {} ELSE {"decipher"})
        ELSE {})
  \cup CountProblems(e, sc, r.next)
Problems(e) ==
  CASE e.op = "TraceReset" -> IF SenderIs(e, e.start) /\ ReceiverIs(e, e.start) THEN {} ELSE {"start-count"}     \* Count.Set(overflow, sqn)
    [] e.op = "Send"    -> WireProblems(e, Cx, Cx.dir, sc) \cup CountProblems(e, AddOne(sc), rc)
    [] e.op = "Skip"    -> (IF e.n >= 1 THEN WireProblems(e, Cx, Cx.dir, AddN(sc, e.n - 1)) ELSE {"harness"}) \cup CountProblems(e, AddN(sc, e.n), rc)
    [] e.op = "Reflect" -> WireProblems(e, Cx, 1 - Cx.dir, e.c) \cup CountProblems(e, sc, rc)
    [] e.op = "Deliver" -> IF net = <<>> THEN {"harness"} ELSE DeliverProblems(e)
    [] e.op \in {"Drop", "Dup", "Reorder"} ->
         IF ~IdxOK(e) THEN {"harness"} ELSE (IF e.wire = cnet[e.i] THEN {} ELSE {"harness"}) \cup CountProblems(e, sc, rc)
    [] e.op = "Tamper" ->
         IF ~IdxOK(e) THEN {"harness"}
         ELSE LET nb == NormBit(e.f, e.b, Len(cnet[e.i]) - 7) IN
              (IF e.wire = FlipOct(cnet[e.i], BitPos(e.f, nb)) THEN {} ELSE {"harness"}) \cup CountProblems(e, sc, rc)
    [] OTHER -> {"harness"}

TInit == /\ l = 1 /\ bad = FALSE /\ cnet = <<>>
         /\ actx = [nia |-> 0, nea |-> 0, bearer |-> 0, dir |-> 0, kenc |-> <<>>, kint |-> <<>>]
         /\ sc = 0 /\ rc = 0 /\ net = <<>> /\ sent = <<>> /\ dlv = <<>> /\ rej = 0 /\ budget = 0 /\ wrapped = FALSE /\ last = NoAct
         /\ TLCSet(2, 0)
\* the tracked state after the event (counts are taken from the observation: resynchronisation is built in)
Track(e) ==
  /\ sc' = e.sget /\ rc' = e.rget
  /\ UNCHANGED <<dlv, rej, budget, wrapped, last>>
  /\ CASE e.op = "TraceReset" ->
            /\ actx' = [nia |-> e.nia, nea |-> e.nea, bearer |-> e.bearer, dir |-> e.dir, kenc |-> e.kenc, kint |-> e.kint]
            /\ net' = <<>> /\ cnet' = <<>> /\ sent' = <<>>
       [] e.op = "Send" ->
            LET w == Protect(Cx, sc, e.plain, Len(sent) + 1) IN
            /\ net' = Append(net, w) /\ cnet' = Append(cnet, e.wire)
            /\ sent' = Append(sent, [cnt |-> sc, msg |-> e.plain, wire |-> w]) /\ UNCHANGED actx
       [] e.op = "Reflect" ->
            /\ net' = Append(net, Protect(Mirror(Cx), e.c, e.plain, 0)) /\ cnet' = Append(cnet, e.wire)
            /\ UNCHANGED <<sent, actx>>
       [] e.op = "Deliver" -> /\ net' = Tail(net) /\ cnet' = Tail(cnet) /\ UNCHANGED <<sent, actx>>
       [] e.op = "Drop" -> /\ net' = RemoveAt(net, e.i) /\ cnet' = RemoveAt(cnet, e.i) /\ UNCHANGED <<sent, actx>>
       [] e.op = "Dup" -> /\ net' = Append(net, net[e.i]) /\ cnet' = Append(cnet, cnet[e.i]) /\ UNCHANGED <<sent, actx>>
       [] e.op = "Reorder" -> /\ net' = <<net[e.i]>> \o RemoveAt(net, e.i) /\ cnet' = <<cnet[e.i]>> \o RemoveAt(cnet, e.i)
                              /\ UNCHANGED <<sent, actx>>
       [] e.op = "Tamper" ->
            LET nb == NormBit(e.f, e.b, Len(cnet[e.i]) - 7) IN
            /\ net' = [net EXCEPT ![e.i] = Flip(@, e.f, nb)]
            /\ cnet' = [cnet EXCEPT ![e.i] = FlipOct(@, BitPos(e.f, nb))]
            /\ UNCHANGED <<sent, actx>>
       [] OTHER -> UNCHANGED <<net, cnet, sent, actx>>          \* Skip
\* an event the tracked network cannot follow (or a panic, after which the driver abandons the behaviour)
Unfollowable(e) == \/ (e.op = "Deliver" /\ net = <<>>)
                   \/ (e.op \in {"Drop", "Dup", "Reorder", "Tamper"} /\ ~IdxOK(e))
                   \/ (e.op \in {"Send", "Reflect"} /\ Len(e.wire) < 8)
                   \/ e.panic
TNext ==
  /\ l <= Len(TraceLog)
  /\ LET e == TraceLog[l] IN
     IF bad /\ e.op # "TraceReset"
     THEN UNCHANGED <<sc, rc, net, sent, dlv, rej, budget, wrapped, last, actx, cnet, bad>>
     ELSE LET P == Problems(e) IN
          /\ \A k \in P : PrintT(<<"MISMATCH", l, e.op, k, actx.nia, actx.nea, sc, rc>>)
          /\ IF Unfollowable(e)
             THEN bad' = TRUE /\ UNCHANGED <<sc, rc, net, sent, dlv, rej, budget, wrapped, last, actx, cnet>>
             ELSE bad' = FALSE /\ Track(e)
  /\ TLCSet(2, l)
  /\ l' = l + 1
Consumed == PrintT(<<"CONSUMED", TLCGet(2)>>)
=============================================================================
