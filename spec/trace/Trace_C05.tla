------------------------------- MODULE Trace_C05 -------------------------------
(* C05: observed routing of the real decoders/encoders vs NasDispatch.
   Decode: input that routes nowhere (unknown type, foreign discriminator, nil, empty, too short) must be an error,
   never a panic; a successful decode populates exactly one body - the table's message for the type octet - and the
   header view equals the body's own header octets; a routed minimal instance must be accepted.
   Encode: no family => error; unknown type => error; the right body => ok.  A family struct whose body pointers are
   all nil while the type is known makes the generated encoder dereference nil: logged as NOTE (DESIGN C05-V). *)
EXTENDS TraceCodecLib, NasDispatch
VARIABLE l
Flat(slots, n) == [k \in 1..n |-> slots[k].v[1]]
Check(e) ==
  CASE e.op = "Dec" ->
        LET c == Route(e.entry, e.inp) IN
        IF e.panic THEN "panic"
        ELSE IF c = {} THEN (IF e.ok THEN "unroutable-input-accepted" ELSE "ok")
        ELSE LET M == Msgs[CHOOSE i \in c : TRUE] IN
             IF ~e.ok THEN (IF DecodeEntry(e.entry, e.bm, e.inp).ok THEN "routed-type-rejected" ELSE "ok")
             ELSE IF Len(e.bodies) # 1 THEN "not-exactly-one-body"
             ELSE IF e.bodies[1] # M.name \/ e.msg # M.name THEN "wrong-body-for-type"
             ELSE IF e.hdr # HeaderView(M, e.inp) THEN "header-view-differs-from-input"
             ELSE IF Len(e.mand) < HdrLen(M) \/ e.hdr # Flat(e.mand, HdrLen(M)) THEN "header-view-differs-from-body"
             ELSE "ok"
    [] e.op = "DecX" ->      \* a receiving message that is not fresh (other family decoded before / SecurityHeader view pre-filled)
        LET c == Route(e.entry, e.inp) IN
        IF e.panic THEN "panic"
        ELSE IF c = {} THEN (IF e.ok THEN "unroutable-input-accepted" ELSE "ok")
        ELSE LET M == Msgs[CHOOSE i \in c : TRUE] IN
             IF ~e.ok THEN (IF DecodeEntry(e.entry, e.bm, e.inp).ok THEN "routed-type-rejected" ELSE "ok")
             ELSE IF \A k \in 1..Len(e.bodies) : e.bodies[k] # M.name THEN "wrong-body-for-type"
             ELSE "ok"
    [] e.op = "EncDisp" ->
        \* three calls on the same message: PlainNasEncode, the family's encoder into a fresh buffer, the family's encoder
        \* into a buffer that already holds octets.  The outcome is decided by family and message type alone.
        LET c == EncRoute(e.fam, e.mt)
            One(ok, panic, bytes, tag) ==
              IF e.fam = "none" \/ c = {} THEN (IF panic THEN "panic" \o tag ELSE IF ok THEN "encode-without-route-succeeds" \o tag ELSE "ok")
              ELSE LET M == Msgs[CHOOSE i \in c : TRUE] IN
                   IF e.m = M.name THEN (IF panic THEN "panic" \o tag ELSE IF ~ok THEN "routed-encode-fails" \o tag
                                         ELSE IF SubSeq(bytes, 1, HdrLen(M)) # (IF M.fam = "GSM" THEN <<EpdGsm, 0, 0, M.mt>> ELSE <<EpdGmm, 0, M.mt>>) THEN "encoded-other-message" \o tag ELSE "ok")
                   ELSE IF panic THEN "note-nil-body-dereference"
                   ELSE IF ok THEN "encode-of-missing-body-succeeds" \o tag ELSE "ok"
            v1 == One(e.ok, e.panic, e.bytes, "")
            v2 == One(e.Okf, e.Panicf, e.Bytesf, "/direct")
            v3 == One(e.Okp, e.Panicp, e.Bytesp, "/direct-into-filled-buffer")
            v4 == One(e.Okr, e.Panicr, e.Bytesr, "/direct-again")
        IN IF v1 \notin {"ok", "note-nil-body-dereference"} THEN v1
           ELSE IF v2 \notin {"ok", "note-nil-body-dereference"} THEN v2
           ELSE IF v3 \notin {"ok", "note-nil-body-dereference"} THEN v3
           ELSE IF ~e.PrefixKept THEN "encoder-changed-octets-already-in-the-buffer"
           ELSE IF e.Okf /\ e.Okp /\ e.Bytesf # e.Bytesp THEN "encoding-depends-on-buffer-contents"
           ELSE IF v4 \notin {"ok", "note-nil-body-dereference"} THEN v4
           ELSE IF e.Okf /\ e.Okr /\ e.Bytesf # e.Bytesr THEN "encoding-depends-on-earlier-encoding"
           ELSE IF e.HdrB4 # e.HdrAf THEN "encoding-changed-the-header-view"
           ELSE IF "note-nil-body-dereference" \in {v1, v2, v3, v4} THEN "note-nil-body-dereference" ELSE "ok"
    [] OTHER -> "ok"
Init == l = 1 /\ TLCSet(2, 0)
Next == /\ l <= Len(TraceLog)
        /\ LET c == Check(TraceLog[l]) IN
           IF c = "ok" THEN TRUE
           ELSE PrintT(<<(IF c = "note-nil-body-dereference" THEN "NOTE" ELSE "MISMATCH"), l, c>>)
        /\ TLCSet(2, l) /\ l' = l + 1
Consumed == PrintT(<<"CONSUMED", TLCGet(2)>>)
=================================================================================
