INIT TInit
NEXT TNext
CONSTANTS MinLo = 0 MaxLo = 0 MaxSize = 1 ArgSlack = 0
CHECK_DEADLOCK FALSE
POSTCONDITION Consumed
