------------------------------- MODULE Trace_C19 -------------------------------
(* C19 (codec part): the events of ONE goroutine that ran concurrently with others.  Every result must equal the
   sequential value the specification gives for that call's own arguments - i.e. it must not depend on what any other
   goroutine was doing (Concurrency!ResultsSequential, with F instantiated by the table-driven codec).
   Shared events are read-only uses (projection, re-encoding) of a message decoded before the goroutines started. *)
EXTENDS TraceCodecLib
VARIABLE l
Check(e) ==
  CASE e.op = "Dec" ->
        IF e.panic THEN "panic" ELSE IF DecAgrees(DecodeEntry(e.entry, e.bm, e.inp), e) THEN "ok" ELSE "decode-result-not-sequential"
    [] e.op = "RT" ->
        LET M == Msgs[MsgByName(e.m)]  m == [mand |-> e.mand, opt |-> e.opt] IN
        IF e.panic \/ ~e.encok \/ ~e.decok THEN "roundtrip-fails"
        ELSE IF e.bytes # Encode(M, m) THEN "encode-result-not-sequential"
        ELSE IF ~MsgEq(m, e.d, M) THEN "decode-result-not-sequential"
        ELSE "ok"
    [] e.op = "Shared" ->
        LET r == DecodePlain(e.inp) IN
        IF e.panic \/ ~e.ok \/ ~r.ok THEN "shared-read-fails"
        ELSE IF ~DecAgrees(r, [ok |-> TRUE, msg |-> e.d.msg, mand |-> e.d.mand, opt |-> e.d.opt]) THEN "shared-message-changed"
        ELSE IF e.bytes # Encode(Msgs[MsgByName(r.msg)], r) THEN "shared-reencoding-differs"
        ELSE "ok"
    [] OTHER -> "ok"
Init == l = 1 /\ TLCSet(2, 0)
Next == /\ l <= Len(TraceLog)
        /\ LET c == Check(TraceLog[l]) IN
           IF c = "ok" THEN TRUE ELSE PrintT(<<"MISMATCH", l, c>>)
        /\ TLCSet(2, l) /\ l' = l + 1
Consumed == PrintT(<<"CONSUMED", TLCGet(2)>>)
=================================================================================
