---------------------------- MODULE Trace_C20 ----------------------------
(* Trace validation for C20.  Every event is one public call on a real IDGenerator, logged at
   its return.  VERDICT: the observed result must be a step of the abstract IdAlloc (tracked in
   `alive`).  INFORMATION: the implementation-shaped model IdAllocImpl predicts the exact id and
   scan offset; a difference is printed as DIVERGE (another correct scan strategy is allowed).
   The spec is total: a mismatch is recorded and the state resynchronised on the observation. *)
EXTENDS IdAllocImpl, Json
VARIABLES l, alive, bad
TraceLog == ndJsonDeserialize("trace.ndjson")
tvars == <<minv, maxv, offset, used, last, l, alive, bad>>

Full == Cardinality(alive) = maxv - minv + 1 /\ alive \subseteq minv..maxv
AbsOK(e) ==
  CASE e.op = "Allocate"        -> IF e.err THEN Full ELSE (e.id \in minv..maxv /\ e.id \notin alive)
    [] e.op = "AllocateInRange" -> e.err \/ (e.id \in minv..maxv /\ e.id \notin alive)
    [] OTHER -> TRUE
AliveNext(e) ==
  CASE e.op \in {"New", "TraceReset"} -> {}
    [] e.op \in {"Allocate", "AllocateInRange"} /\ ~e.err -> alive \cup {e.id}
    [] e.op = "FreeID" -> alive \ {e.id}
    [] OTHER -> alive

SetOf(s) == {s[i] : i \in DOMAIN s}
\* prediction of the implementation-shaped model
Pred(e) ==
  CASE e.op = "Allocate" -> Scan(offset, offset, FALSE, 0, 2 * Range + 2)
    [] e.op = "AllocateInRange" -> Scan(SetOff(e.a), offset, TRUE, e.b, 2 * Range + 2)
    [] OTHER -> [ok |-> TRUE, off |-> offset]
HasSnap(e) == e.off >= 0
ImplAgrees(e) ==
  CASE ~HasSnap(e) -> TRUE      \* large ranges: abstract verdict only
    [] e.op \in {"Allocate", "AllocateInRange"} ->
         LET r == Pred(e) IN
         /\ r.ok = ~e.err
         /\ r.ok => e.id = r.off + minv
         /\ HasSnap(e) => e.off = (IF r.ok THEN GoMod(r.off + 1, Range) ELSE r.off)
    [] e.op = "FreeID" -> e.off = offset /\ SetOf(e.used) = (IF e.id < minv \/ e.id > maxv THEN used ELSE used \ {e.id - minv})
    [] OTHER -> TRUE
ImplNext(e) ==
  CASE e.op = "TraceReset" -> /\ UNCHANGED <<minv, maxv, offset, used, last>>
    [] e.op = "New" -> /\ minv' = e.min /\ maxv' = e.max /\ offset' = 0 /\ used' = {} /\ UNCHANGED last
    [] OTHER ->
         /\ UNCHANGED <<minv, maxv, last>>
         /\ IF HasSnap(e) THEN offset' = e.off /\ used' = SetOf(e.used)
            ELSE UNCHANGED <<offset, used>>

TInit == /\ l = 1 /\ alive = {} /\ bad = FALSE
         /\ minv = 0 /\ maxv = 0 /\ offset = 0 /\ used = {}
         /\ last = [op |-> "New", ok |-> TRUE, id |-> 0, pre |-> {}, a |-> 0, b |-> 0, poff |-> 0]
         /\ TLCSet(1, 0) /\ TLCSet(2, 0) /\ TLCSet(3, 0)

TNext ==
  /\ l <= Len(TraceLog)
  /\ LET e == TraceLog[l] IN
     /\ IF AbsOK(e) \/ bad THEN bad' = (bad /\ e.op # "TraceReset")
        ELSE /\ PrintT(<<"MISMATCH", l, e.op, e.id, e.err, minv, maxv, Cardinality(alive)>>)
             /\ bad' = TRUE
     /\ IF ImplAgrees(e) THEN TRUE
        ELSE (TLCGet(3) >= 20 \/ PrintT(<<"DIVERGE", l, e.op, e.id, e.err, offset>>)) /\ TLCSet(3, TLCGet(3) + 1)
     /\ alive' = AliveNext(e)
     /\ ImplNext(e)
  /\ TLCSet(2, l)
  /\ l' = l + 1
TSpec == TInit /\ [][TNext]_tvars
\* the abstract invariant, on the observed history
AliveInRange == alive \subseteq minv..maxv
Consumed == PrintT(<<"CONSUMED", TLCGet(2)>>)
==========================================================================
