------------------------------- MODULE Trace_C03 -------------------------------
(* C03: on the OBSERVED chain decode -> encode -> decode -> encode of the real code:
   an accepted input re-encodes, decoding that output yields the same message, encoding once more
   yields identical octets; if the input is canonical BY THE TABLES, the re-encoding equals the input. *)
EXTENDS TraceCodecLib
VARIABLE l
SameProj(a, b) == a.msg = b.msg /\ a.mand = b.mand /\ a.opt = b.opt
Check(e) ==
  IF e.op # "Re" THEN "ok"
  ELSE IF e.panic THEN "panic"
  ELSE IF ~e.ok THEN "ok"                                  \* rejected input: nothing to say here
  ELSE IF ~e.e1ok THEN "reencode-fails"
  ELSE IF ~e.d2ok THEN "redecode-fails"
  ELSE IF ~SameProj(e.d1, e.d2) THEN "redecoded-message-differs"
  ELSE IF ~e.e2ok \/ e.e2 # e.e1 THEN "not-a-fixed-point"
  ELSE LET M == Msgs[MsgByName(e.d1.msg)] IN
       IF Canonical(M, e.inp) /\ e.e1 # e.inp THEN "canonical-input-not-byte-exact"
       ELSE "ok"
Init == l = 1 /\ TLCSet(2, 0) /\ TLCSet(3, 0)
Next == /\ l <= Len(TraceLog)
        /\ LET c == Check(TraceLog[l]) IN
           IF c = "ok" THEN TRUE ELSE PrintT(<<"MISMATCH", l, c>>)
        /\ LET e == TraceLog[l] IN
           (e.op = "Re" /\ e.ok /\ Canonical(Msgs[MsgByName(e.d1.msg)], e.inp)) => TLCSet(3, TLCGet(3) + 1)
        /\ TLCSet(2, l) /\ l' = l + 1
Consumed == PrintT(<<"CONSUMED", TLCGet(2)>>) /\ PrintT(<<"CANONICAL", TLCGet(3)>>)
=================================================================================
