------------------------------- MODULE Trace_C04 -------------------------------
(* C04: every observed decode must agree with the table-driven decoder on accept/reject, routed
   message and every field value; every observed encoding of a well-formed message must be the
   table-driven encoding.  Inputs that contain identifiers unknown to the message are outside the
   verdict (information only). *)
EXTENDS TraceCodecLib
VARIABLE l
Check(e) ==
  CASE e.op = "Dec" ->
        LET r == DecodeEntry(e.entry, e.bm, e.inp)  c == RouteTable(e.entry, e.bm, e.inp) IN
        IF e.panic THEN "panic"
        ELSE IF DecAgrees(r, e) THEN "ok"
        ELSE IF c # {} /\ ~AllKnown(Msgs[CHOOSE i \in c : TRUE], e.inp) THEN "note-unknown-iei"
        ELSE IF r.ok # e.ok THEN (IF e.ok THEN "accepts-outside-grammar" ELSE "rejects-inside-grammar")
        ELSE "field-values-differ"
    [] e.op = "RT" ->
        LET M == Msgs[MsgByName(e.m)]  m == [mand |-> e.mand, opt |-> e.opt] IN
        IF e.panic \/ ~e.encok THEN "encode-fails"
        ELSE IF e.bytes # Encode(M, m) THEN "encoded-octets-differ"
        \* the produced octets are an input inside the grammar: the real decoder must accept them and yield the field values
        \* the table-driven decoder yields - which are those of m (Decode(Encode(m)) = m is checked in stage A)
        ELSE IF ~WellFormed(M, m) THEN "ok"
        ELSE IF ~e.decok THEN "rejects-inside-grammar"
        ELSE IF e.d.msg # e.m \/ ~MsgEq(m, e.d, M) THEN "field-values-differ"
        ELSE "ok"
    [] OTHER -> "ok"
Init == l = 1 /\ TLCSet(2, 0)
Next == /\ l <= Len(TraceLog)
        /\ LET c == Check(TraceLog[l]) IN
           IF c = "ok" THEN TRUE
           ELSE PrintT(<<(IF c = "note-unknown-iei" THEN "NOTE" ELSE "MISMATCH"), l, c>>)
        /\ TLCSet(2, l) /\ l' = l + 1
Consumed == PrintT(<<"CONSUMED", TLCGet(2)>>)
=================================================================================
