------------------------------ MODULE Trace_C14 ------------------------------
(* Trace validation for C14.  Events (all with the same keys
     op, h, text, in, free, alpha, cls, fn, kind, codes, sigs, counts):
   "Call"    one call: in = contents (octets) or text (code points); cls = observed class
             "val" | "err" | "empty" | "panic" | "hang" | "skipped"; fn/kind = panicking library frame and
             normalised panic text.
   "Chunk"   compact: every input  in \o <<x>>  (free = 1, x in 0..255) or  in \o <<a, b>>  (free = 2, a, b in alpha);
             codes[i] = 0 val, 1 err, 2 empty, 4 hang, 5 skipped, 10 + j panic with signature sigs[j + 1].
   "Digest"  compact, no per-input codes: counts = <<val, err, empty, panic, hang, skipped>> over all 256^free
             extensions of `in`; sigs = panic signatures with their number of occurrences.
   "TraceReset" / "Set" / "Get"   a history on ONE reused value (HelperObject): TraceReset starts a new value,
             Set: h = kind of value, in = contents now stored, cls = how ("buffer" | "setters");
             Get: h = getter, cls/fn/kind as for Call.  The specification's class and the recorded-finding
             predicates are evaluated on the CURRENT contents tracked in `cur` (a getter's result depends on the
             current contents only).
   VERDICT (property): no panic inside the library, no hang.  Lines (kept short: TLC wraps long tuples)
     <<"MISMATCH", l, "PANIC" | "HANG", class, count, first>>
   class = the recorded finding class when the input falls in the recorded failing set AND the panic is the
   recorded one (frame + kind), else "";  first = first offending element of a chunk, or the signature index of a
   digest (the orchestrator reads helper, frame and panic text from event l).
   INFORMATION: <<"MISMATCH", l, "NOTE", "spec>observed", count, first>> when the observed result class differs
   from the specification's; "INFO" panics of helpers outside the property's list; "BAD" malformed observation (infra). *)
EXTENDS Helpers, TLC, Json
VARIABLES l, cur, curkind
TraceLog == ndJsonDeserialize("trace.ndjson")

SetMin(S) == CHOOSE x \in S : \A y \in S : x <= y

IdxKind == "runtime error: index out of range [N] with length N"
SliceKinds == {"runtime error: slice bounds out of range [:N] with capacity N",
               "runtime error: slice bounds out of range [:N] with length N"}
SliceNegKind == "runtime error: slice bounds out of range [:-N]"
OutOfRangeKinds == {IdxKind, SliceNegKind, "runtime error: slice bounds out of range [N:N]", "runtime error: index out of range [-N]"} \cup SliceKinds
GetterFns == {"nasType.(*MobileIdentity5GS).GetTypeOfIdentity", "nasType.(*MobileIdentity5GS).GetMobileIdentity", "nasType.(*MobileIdentity5GS).GetSUCI", "nasType.(*MobileIdentity5GS).GetPlmnID", "nasType.(*MobileIdentity5GS).GetMCC", "nasType.(*MobileIdentity5GS).GetMNC", "nasType.(*MobileIdentity5GS).Get5GGUTI", "nasType.(*MobileIdentity5GS).GetAmfID", "nasType.(*MobileIdentity5GS).GetAmfRegionID", "nasType.(*MobileIdentity5GS).GetAmfSetID", "nasType.(*MobileIdentity5GS).GetAmfPointer", "nasType.(*MobileIdentity5GS).Get5GTMSI", "nasType.(*MobileIdentity5GS).GetIMEI", "nasType.(*MobileIdentity5GS).GetIMEISV", "nasType.(*MobileIdentity5GS).Get5GSTMSI", "nasType.peiToString", "nasType.naiToString"}
\* recorded: below this buffer length the getter indexes past the end (unchanged tree)
GetterShort(g) ==
  CASE g = "GetTypeOfIdentity" -> 1 [] g \in {"GetIMEI", "GetIMEISV"} -> 1
    [] g = "GetMCC" -> 3 [] g \in {"GetMNC", "GetPlmnID"} -> 4 [] g = "GetAmfRegionID" -> 5
    [] g \in {"GetAmfID", "GetAmfSetID", "GetAmfPointer", "Get5GTMSI", "Get5GGUTI", "Get5GSTMSI"} -> 7
    [] g \in {"GetSUCI", "GetMobileIdentity"} -> 9

\* recorded behaviour of LadnToModels: starts at offset 1, reads a length octet, slices [off, off+L) and
\* advances by L only
RECURSIVE ImplLadn(_, _)
ImplLadn(b, off) ==
  IF off >= Len(b) THEN "ok"
  ELSE LET L == b[off + 1] IN
       IF L = 0 THEN "hang" ELSE IF off + L > Len(b) THEN "panic" ELSE ImplLadn(b, off + L)

KnownPanic(h, inp, fn, kind) ==
  LET n == Len(inp) IN
  CASE h = "UESecurityCapabilityToByteArray" /\ n = 3 /\ fn = "nasConvert.UESecurityCapabilityToByteArray" /\ kind = IdxKind
         -> "seccap-len3"
    [] h = "UpuAckToModels" /\ n = 0 /\ fn = "nasConvert.UpuAckToModels" /\ kind = IdxKind -> "upuack-empty"
    [] h = "DNN.GetDNN" /\ n = 0 /\ fn = "nasType.rfc1035tofqdn" /\ kind = SliceNegKind -> "dnn-empty"
    [] h = "LadnToModels" /\ n >= 2 /\ fn = "nasConvert.LadnToModels" /\ kind \in SliceKinds -> "ladn-past-end"
    [] h \in GetterNames /\ n < GetterShort(h) /\ fn \in GetterFns /\ kind \in OutOfRangeKinds -> "short-buffer"
    [] h \in {"AmfIdToNasWithError", "AmfIdToNas"} /\ AllHex(inp) /\ n \in {0, 2, 4}
         /\ fn = "nasConvert.AmfIdToNasWithError" /\ kind = IdxKind -> "amfid-short-hex"
    [] OTHER -> ""
KnownHang(h, inp) == IF h = "LadnToModels" /\ Len(inp) >= 2 /\ ImplLadn(inp, 1) = "hang" THEN "ladn-zero-len-hang" ELSE ""

SpecClass(e, inp) == IF e.text THEN TextClass(e.h, inp) ELSE ByteClass(e.h, inp)
CodeOf(c) == CASE c = "val" -> 0 [] c = "err" -> 1 [] c = "empty" -> 2
NameOf(k) == CASE k = 0 -> "val" [] k = 1 -> "err" [] k = 2 -> "empty" [] OTHER -> "?"

K(e) == IF Len(e.alpha) = 0 THEN 256 ELSE Len(e.alpha)
Sym(e, j) == IF Len(e.alpha) = 0 THEN j ELSE e.alpha[j + 1]
NElems(e) == IF e.free = 1 THEN K(e) ELSE K(e) * K(e)
Elem(e, i) == e.in \o (IF e.free = 1 THEN <<Sym(e, i)>> ELSE <<Sym(e, i \div K(e)), Sym(e, i % K(e))>>)
PanicKind(e) == IF e.h \in InfoHelpers THEN "INFO" ELSE "PANIC"

\* Each report is a SET of lines, computed as an ordinary expression (TLC caches LET definitions there, not
\* inside an action) and printed by the action.
M(kind, cls, cnt, first) == <<"MISMATCH", l, kind, cls, cnt, first>>

CallLinesOn(e, inp) ==
  CASE e.cls \in Classes ->
         LET s == SpecClass(e, inp) IN IF s = e.cls THEN {} ELSE {M("NOTE", s \o ">" \o e.cls, 1, 0)}
    [] e.cls = "panic" -> {M(PanicKind(e), KnownPanic(e.h, inp, e.fn, e.kind), 1, 0)}
    [] e.cls = "hang" -> {M("HANG", KnownHang(e.h, inp), 1, 0)}
    [] e.cls = "skipped" -> IF KnownHang(e.h, inp) # "" THEN {} ELSE {M("BAD", "bad skip", 1, 0)}
    [] OTHER -> {M("BAD", "unknown class", 1, 0)}
CallLines(e) == CallLinesOn(e, e.in)

\* reused values
ObjKindNames == {"MobileIdentity5GS", "DNN", "RequestedNSSAI"}
GettersOfKind(k) == CASE k = "MobileIdentity5GS" -> GetterNames [] k = "DNN" -> {"DNN.GetDNN"}
                      [] k = "RequestedNSSAI" -> {"RequestedNssaiToModels"} [] OTHER -> {}

\* per element: <<index, observed code, specification's class code, finding class of a panic / hang>>
ChunkLines(e) ==
  LET N == NElems(e)
      rows == {<<i, e.codes[i + 1],
                 CodeOf(SpecClass(e, Elem(e, i))),
                 IF e.codes[i + 1] >= 10 THEN KnownPanic(e.h, Elem(e, i), e.sigs[e.codes[i + 1] - 9].fn, e.sigs[e.codes[i + 1] - 9].kind)
                 ELSE IF e.codes[i + 1] \in {4, 5} THEN KnownHang(e.h, Elem(e, i)) ELSE "">> : i \in 0..(N - 1)}
      pan == {r \in rows : r[2] >= 10}
      hang == {r \in rows : r[2] = 4}
      badskip == {r \in rows : r[2] = 5 /\ r[4] = ""}
      div == {r \in rows : r[2] \in 0..2 /\ r[2] # r[3]}
      First(S) == SetMin({r[1] : r \in S})
  IN (IF Len(e.codes) = N THEN {} ELSE {M("BAD", "chunk size", 1, 0)})
     \cup {M(PanicKind(e), g[1], Cardinality({r \in pan : r[4] = g[1] /\ r[2] = g[2]}), First({r \in pan : r[4] = g[1] /\ r[2] = g[2]}))
            : g \in {<<r[4], r[2]>> : r \in pan}}
     \cup {M("HANG", c, Cardinality({r \in hang : r[4] = c}), First({r \in hang : r[4] = c})) : c \in {r[4] : r \in hang}}
     \cup {M("BAD", "bad skip", 1, r[1]) : r \in badskip}
     \cup {M("NOTE", NameOf(d[1]) \o ">" \o NameOf(d[2]), Cardinality({r \in div : r[3] = d[1] /\ r[2] = d[2]}),
              First({r \in div : r[3] = d[1] /\ r[2] = d[2]})) : d \in {<<r[3], r[2]>> : r \in div}}

RECURSIVE SumSeq(_, _)
SumSeq(s, i) == IF i > Len(s) THEN 0 ELSE s[i] + SumSeq(s, i + 1)
Pow256(f) == CASE f = 1 -> 256 [] f = 2 -> 65536 [] f = 3 -> 16777216
DigestLines(e) ==
  LET n == Len(e.in) + e.free
      dummy == [i \in 1..n |-> 0]
      total == IF Len(e.alpha) = 0 THEN Pow256(e.free) ELSE Len(e.alpha) * Len(e.alpha)
  IN (IF SumSeq(e.counts, 1) = total /\ e.free \in 1..3 THEN {} ELSE {M("BAD", "digest incomplete", 1, 0)})
     \cup (IF e.counts[4] = SumSeq([j \in 1..Len(e.sigs) |-> e.sigs[j].n], 1) THEN {} ELSE {M("BAD", "digest panic count", 1, 0)})
     \cup {M(PanicKind(e), KnownPanic(e.h, dummy, e.sigs[j].fn, e.sigs[j].kind), e.sigs[j].n, j) : j \in 1..Len(e.sigs)}
     \cup (IF e.counts[5] = 0 THEN {} ELSE {M("HANG", "", e.counts[5], 0)})
     \* skipped inputs are only accepted for the helper with a recorded hang class
     \cup (IF e.counts[6] = 0 \/ e.h = "LadnToModels" THEN {} ELSE {M("BAD", "bad skip", 1, 0)})

Lines(e) ==
  CASE e.op = "TraceReset" -> {}
    [] e.op = "Set" -> IF e.h \in ObjKindNames /\ e.cls \in {"buffer", "setters"} THEN {} ELSE {M("BAD", "bad Set", 1, 0)}
    [] e.op = "Get" -> IF e.h \in GettersOfKind(curkind) THEN CallLinesOn(e, cur) ELSE {M("BAD", "getter of another kind", 1, 0)}
    [] e.h \notin AllHelpers -> {M("BAD", "unknown helper", 1, 0)}
    [] e.op = "Call" -> CallLines(e)
    [] e.op = "Chunk" -> ChunkLines(e)
    [] e.op = "Digest" -> DigestLines(e)
    [] OTHER -> {M("BAD", "unknown op", 1, 0)}
Report(e) == \A t \in Lines(e) : PrintT(t)

TInit == l = 1 /\ cur = <<>> /\ curkind = "" /\ TLCSet(2, 0)
TNext ==
  /\ l <= Len(TraceLog)
  /\ Report(TraceLog[l])
  /\ cur' = (CASE TraceLog[l].op = "Set" -> TraceLog[l].in [] TraceLog[l].op = "TraceReset" -> <<>> [] OTHER -> cur)
  /\ curkind' = (CASE TraceLog[l].op = "Set" -> TraceLog[l].h [] TraceLog[l].op = "TraceReset" -> "" [] OTHER -> curkind)
  /\ TLCSet(2, l)
  /\ l' = l + 1
TSpec == TInit /\ [][TNext]_<<l, cur, curkind>>
Consumed == PrintT(<<"CONSUMED", TLCGet(2)>>)
=============================================================================
