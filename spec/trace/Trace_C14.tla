------------------------------ MODULE Trace_C14 ------------------------------
(* Trace validation for C14.  Events (all with the same keys
     op, h, text, in, free, alpha, cls, fn, kind, codes, sigs, counts):
   "Call"    one call: in = contents (octets) or text (code points); cls = observed class
             "val" | "err" | "empty" | "panic" | "hang" | "skipped"; fn/kind = panicking library frame and
             normalised panic text.
   "Chunk"   compact: every input  in \o <<x>>  (free = 1, x in 0..255) or  in \o <<a, b>>  (free = 2, a, b in alpha);
             codes[i] = 0 val, 1 err, 2 empty, 4 hang, 5 skipped, 10 + j panic with signature sigs[j + 1].
   "Digest"  compact, no per-input codes: counts = <<val, err, empty, panic, hang, skipped>> over all 256^free
             extensions of `in`; sigs = panic signatures with their number of occurrences.
   VERDICT (property): no panic inside the library, no hang.  Lines
     <<"MISMATCH", l, h, "PANIC" | "HANG", class, fn, kind, count, first>>
   class = the recorded finding class when the input falls in the recorded failing set AND the panic is the
   recorded one (frame + kind), else "".  INFORMATION: <<"MISMATCH", l, h, "NOTE", spec class, observed class, "", count, first>>
   when the observed result class differs from the specification's; "INFO" panics of helpers outside the
   property's list; "BAD" malformed observation (infra). *)
EXTENDS Helpers, TLC, Json
VARIABLES l
TraceLog == ndJsonDeserialize("trace.ndjson")

SetMin(S) == CHOOSE x \in S : \A y \in S : x <= y

IdxKind == "runtime error: index out of range [N] with length N"
SliceKinds == {"runtime error: slice bounds out of range [:N] with capacity N",
               "runtime error: slice bounds out of range [:N] with length N"}
SliceNegKind == "runtime error: slice bounds out of range [:-N]"
OutOfRangeKinds == {IdxKind, SliceNegKind, "runtime error: slice bounds out of range [N:N]", "runtime error: index out of range [-N]"} \cup SliceKinds
GetterFns == {"nasType.(*MobileIdentity5GS).GetTypeOfIdentity", "nasType.(*MobileIdentity5GS).GetMobileIdentity", "nasType.(*MobileIdentity5GS).GetSUCI", "nasType.(*MobileIdentity5GS).GetPlmnID", "nasType.(*MobileIdentity5GS).GetMCC", "nasType.(*MobileIdentity5GS).GetMNC", "nasType.(*MobileIdentity5GS).Get5GGUTI", "nasType.(*MobileIdentity5GS).GetAmfID", "nasType.(*MobileIdentity5GS).GetAmfRegionID", "nasType.(*MobileIdentity5GS).GetAmfSetID", "nasType.(*MobileIdentity5GS).GetAmfPointer", "nasType.(*MobileIdentity5GS).Get5GTMSI", "nasType.(*MobileIdentity5GS).GetIMEI", "nasType.(*MobileIdentity5GS).GetIMEISV", "nasType.(*MobileIdentity5GS).Get5GSTMSI", "nasType.peiToString", "nasType.naiToString"}
\* recorded: below this buffer length the getter indexes past the end (unchanged tree)
GetterShort(g) ==
  CASE g = "GetTypeOfIdentity" -> 1 [] g \in {"GetIMEI", "GetIMEISV"} -> 1
    [] g = "GetMCC" -> 3 [] g \in {"GetMNC", "GetPlmnID"} -> 4 [] g = "GetAmfRegionID" -> 5
    [] g \in {"GetAmfID", "GetAmfSetID", "GetAmfPointer", "Get5GTMSI", "Get5GGUTI", "Get5GSTMSI"} -> 7
    [] g \in {"GetSUCI", "GetMobileIdentity"} -> 9

\* recorded behaviour of LadnToModels: starts at offset 1, reads a length octet, slices [off, off+L) and
\* advances by L only
RECURSIVE ImplLadn(_, _)
ImplLadn(b, off) ==
  IF off >= Len(b) THEN "ok"
  ELSE LET L == b[off + 1] IN
       IF L = 0 THEN "hang" ELSE IF off + L > Len(b) THEN "panic" ELSE ImplLadn(b, off + L)

KnownPanic(h, inp, fn, kind) ==
  LET n == Len(inp) IN
  CASE h = "UESecurityCapabilityToByteArray" /\ n = 3 /\ fn = "nasConvert.UESecurityCapabilityToByteArray" /\ kind = IdxKind
         -> "len-3-index-out-of-range"
    [] h = "UpuAckToModels" /\ n = 0 /\ fn = "nasConvert.UpuAckToModels" /\ kind = IdxKind -> "empty-index-out-of-range"
    [] h = "DNN.GetDNN" /\ n = 0 /\ fn = "nasType.rfc1035tofqdn" /\ kind = SliceNegKind -> "empty-slice-bounds"
    [] h = "LadnToModels" /\ n >= 2 /\ fn = "nasConvert.LadnToModels" /\ kind \in SliceKinds -> "length-octet-past-end-slice-bounds"
    [] h \in GetterNames /\ n < GetterShort(h) /\ fn \in GetterFns /\ kind \in OutOfRangeKinds -> "buffer-shorter-than-layout"
    [] h \in {"AmfIdToNasWithError", "AmfIdToNas"} /\ AllHex(inp) /\ n \in {0, 2, 4}
         /\ fn = "nasConvert.AmfIdToNasWithError" /\ kind = IdxKind -> "hex-under-3-octets-index-out-of-range"
    [] OTHER -> ""
KnownHang(h, inp) == IF h = "LadnToModels" /\ Len(inp) >= 2 /\ ImplLadn(inp, 1) = "hang" THEN "zero-length-octet-hang" ELSE ""

SpecClass(e, inp) == IF e.text THEN TextClass(e.h, inp) ELSE ByteClass(e.h, inp)
CodeOf(c) == CASE c = "val" -> 0 [] c = "err" -> 1 [] c = "empty" -> 2
NameOf(k) == CASE k = 0 -> "val" [] k = 1 -> "err" [] k = 2 -> "empty" [] OTHER -> "?"

K(e) == IF Len(e.alpha) = 0 THEN 256 ELSE Len(e.alpha)
Sym(e, j) == IF Len(e.alpha) = 0 THEN j ELSE e.alpha[j + 1]
NElems(e) == IF e.free = 1 THEN K(e) ELSE K(e) * K(e)
Elem(e, i) == e.in \o (IF e.free = 1 THEN <<Sym(e, i)>> ELSE <<Sym(e, i \div K(e)), Sym(e, i % K(e))>>)
PanicKind(e) == IF e.h \in InfoHelpers THEN "INFO" ELSE "PANIC"

CallReport(e) ==
  CASE e.cls \in Classes ->
         LET s == SpecClass(e, e.in) IN
         IF s = e.cls THEN TRUE ELSE PrintT(<<"MISMATCH", l, e.h, "NOTE", s, e.cls, "", 1, 0>>)
    [] e.cls = "panic" -> PrintT(<<"MISMATCH", l, e.h, PanicKind(e), KnownPanic(e.h, e.in, e.fn, e.kind), e.fn, e.kind, 1, 0>>)
    [] e.cls = "hang" -> PrintT(<<"MISMATCH", l, e.h, "HANG", KnownHang(e.h, e.in), "", "", 1, 0>>)
    [] e.cls = "skipped" -> IF KnownHang(e.h, e.in) # "" THEN TRUE ELSE PrintT(<<"MISMATCH", l, e.h, "BAD", "skip outside the recorded hang class", "", "", 1, 0>>)
    [] OTHER -> PrintT(<<"MISMATCH", l, e.h, "BAD", "unknown class", "", "", 1, 0>>)

ChunkReport(e) ==
  LET N == NElems(e)
      idx == 0..(N - 1)
      spec == SubSeq([i \in 1..N |-> CodeOf(SpecClass(e, Elem(e, i - 1)))], 1, N)      \* forced once
      pan == {i \in idx : e.codes[i + 1] >= 10}
      pcl == {<<KnownPanic(e.h, Elem(e, i), e.sigs[e.codes[i + 1] - 9].fn, e.sigs[e.codes[i + 1] - 9].kind), e.codes[i + 1] - 9>> : i \in pan}
      hang == {i \in idx : e.codes[i + 1] = 4}
      hcl == {KnownHang(e.h, Elem(e, i)) : i \in hang}
      skip == {i \in idx : e.codes[i + 1] = 5}
      div == {<<spec[i + 1], e.codes[i + 1]>> : i \in {j \in idx : e.codes[j + 1] \in 0..2 /\ e.codes[j + 1] # spec[j + 1]}}
  IN /\ (IF Len(e.codes) = N THEN TRUE ELSE PrintT(<<"MISMATCH", l, e.h, "BAD", "chunk size", "", "", 1, 0>>))
     /\ \A g \in pcl :
          LET S == {i \in pan : e.codes[i + 1] - 9 = g[2] /\ KnownPanic(e.h, Elem(e, i), e.sigs[g[2]].fn, e.sigs[g[2]].kind) = g[1]} IN
          PrintT(<<"MISMATCH", l, e.h, PanicKind(e), g[1], e.sigs[g[2]].fn, e.sigs[g[2]].kind, Cardinality(S), SetMin(S)>>)
     /\ \A c \in hcl :
          LET S == {i \in hang : KnownHang(e.h, Elem(e, i)) = c} IN
          PrintT(<<"MISMATCH", l, e.h, "HANG", c, "", "", Cardinality(S), SetMin(S)>>)
     /\ \A i \in skip : IF KnownHang(e.h, Elem(e, i)) # "" THEN TRUE
                        ELSE PrintT(<<"MISMATCH", l, e.h, "BAD", "skip outside the recorded hang class", "", "", 1, i>>)
     /\ \A d \in div :
          LET S == {i \in idx : e.codes[i + 1] = d[2] /\ spec[i + 1] = d[1]} IN
          PrintT(<<"MISMATCH", l, e.h, "NOTE", NameOf(d[1]), NameOf(d[2]), "", Cardinality(S), SetMin(S)>>)

RECURSIVE SumSeq(_, _)
SumSeq(s, i) == IF i > Len(s) THEN 0 ELSE s[i] + SumSeq(s, i + 1)
Pow256(f) == CASE f = 1 -> 256 [] f = 2 -> 65536 [] f = 3 -> 16777216
DigestReport(e) ==
  LET n == Len(e.in) + e.free
      dummy == [i \in 1..n |-> 0]
  IN /\ (IF SumSeq(e.counts, 1) = Pow256(e.free) /\ ~e.text THEN TRUE ELSE PrintT(<<"MISMATCH", l, e.h, "BAD", "digest incomplete", "", "", 1, 0>>))
     /\ (IF e.counts[4] = SumSeq([j \in 1..Len(e.sigs) |-> e.sigs[j].n], 1) THEN TRUE ELSE PrintT(<<"MISMATCH", l, e.h, "BAD", "digest panic count", "", "", 1, 0>>))
     /\ \A j \in 1..Len(e.sigs) :
          PrintT(<<"MISMATCH", l, e.h, PanicKind(e), KnownPanic(e.h, dummy, e.sigs[j].fn, e.sigs[j].kind), e.sigs[j].fn, e.sigs[j].kind, e.sigs[j].n, j>>)
     /\ (IF e.counts[5] = 0 THEN TRUE ELSE PrintT(<<"MISMATCH", l, e.h, "HANG", "", "", "", e.counts[5], 0>>))
     \* skipped inputs are only accepted for the helper with a recorded hang class
     /\ (IF e.counts[6] = 0 \/ e.h = "LadnToModels" THEN TRUE ELSE PrintT(<<"MISMATCH", l, e.h, "BAD", "skip outside the recorded hang class", "", "", 1, 0>>))

Report(e) ==
  CASE e.h \notin AllHelpers -> PrintT(<<"MISMATCH", l, e.h, "BAD", "unknown helper", "", "", 1, 0>>)
    [] e.op = "Call" -> CallReport(e)
    [] e.op = "Chunk" -> ChunkReport(e)
    [] e.op = "Digest" -> DigestReport(e)
    [] OTHER -> PrintT(<<"MISMATCH", l, e.h, "BAD", "unknown op", "", "", 1, 0>>)

TInit == l = 1 /\ TLCSet(2, 0)
TNext ==
  /\ l <= Len(TraceLog)
  /\ Report(TraceLog[l])
  /\ TLCSet(2, l)
  /\ l' = l + 1
TSpec == TInit /\ [][TNext]_l
Consumed == PrintT(<<"CONSUMED", TLCGet(2)>>)
=============================================================================
