---------------------------- MODULE Trace_X02 ----------------------------
(* Trace validation for X02 (harness/cmd/misc).  Every event is self-contained; the oracle is
   MiscConvert.tla (with PcoGrammar and UePolicy).  Events:
     PcoBuild     a history of Add* calls on one list: error flag and list after every call, Marshal of
                  the final list, UnMarshal of that, list and octets read again after another list was built
     PduToModels / PduToNas / KsiToModels / KsiToNas     whole tables
     DnnSet       SetDNN(name) on an object holding `prev`: buffer, length field, GetDNN; read again later
     DnnGet       GetDNN on a given buffer
     UpuToNas     UpuInfoToNas of a UpuInfo given as the texts the data model carries; result read again later
     Tmsi         Get5GSTMSI of seven octets (given raw or through the setters)
     CauseText    Cause5GMMToString of all 256 values
     SecHdr       GetEPD / GetSecurityHeaderType of octet arrays
     HdrSet       header EPD / message type setters and getters, 256 values
     PlmnRow / PlmnParse / PlmnFresh     GetPlmnDigit after SetPlmnDigit / after parsing or assigning the octet fields / on a new object
   VERDICTS are printed as <<"MISMATCH", l, op, class, detail>>; information (behaviour the standard
   does not fix) as <<"DIVERGE", l, op, class, detail>> (at most 40 per operation and shard).
   Total: every event is consumed whatever it contains; Next is never disabled. *)
EXTENDS MiscConvert, Json
VARIABLES l
TraceLog == ndJsonDeserialize("trace.ndjson")

Bad(ok, cls, detail) == IF ok THEN {} ELSE {<<cls, detail>>}
\* the smallest k in 1..n with ~P(k), 0 if none
FirstBad(n, P(_)) == IF \E k \in 1..n : ~P(k) THEN CHOOSE k \in 1..n : ~P(k) /\ \A j \in 1..(k - 1) : P(j) ELSE 0
FirstOf(n, P(_), cls) == LET k == FirstBad(n, P) IN IF k = 0 THEN {} ELSE {<<cls, k>>}
Crash(e) == IF e.hang THEN {<<"hang", 0>>} ELSE IF e.panic /\ e.plib THEN {<<"panic", 0>>} ELSE {}
Harness(e) == e.panic /\ ~e.plib

\* ------------------------------------------------------------------ 1  PCO builders
PcoStepClass(e, k, prev) ==
  LET outs == McOutcomes(e.ops[k])
      mustAccept == outs # {} /\ \A r \in outs : r.ok
      mustRefuse == outs # {} /\ \A r \in outs : ~r.ok IN
  IF e.errs[k] /\ mustAccept THEN "refused"
  ELSE IF ~e.errs[k] /\ mustRefuse THEN "wrong-address-accepted"
  ELSE IF e.errs[k] /\ e.lists[k] # prev THEN "list-changed-on-error"
  ELSE "unit"
CheckPco(e) ==
  IF e.hang THEN {<<"hang", e.pstep>>}
  ELSE IF e.panic THEN (IF e.plib THEN {<<"panic", e.pstep>>} ELSE {})
  ELSE LET n == Len(e.ops)
           prev(k) == IF k = 1 THEN << >> ELSE e.lists[k - 1]
           stepOK(k) == \E r \in McOutcomes(e.ops[k]) : e.errs[k] = ~r.ok /\ e.lists[k] = McApply(prev(k), r)
           final == IF n = 0 THEN << >> ELSE e.lists[n] IN
       IF Len(e.errs) # n \/ Len(e.lists) # n THEN {<<"incomplete", 0>>}
       ELSE LET k == FirstBad(n, stepOK) IN
            (IF k = 0 THEN {} ELSE {<<PcoStepClass(e, k, prev(k)), k>>})
            \cup Bad(e.bytes = Marshal(final), "marshal-octets", Len(e.bytes))
            \cup Bad(~e.uerr /\ e.back = final, "round-trip", IF e.uerr THEN -1 ELSE Len(e.back))
            \cup Bad(e.heldlist = final /\ e.heldbytes = e.bytes, "result-changed-after-return", 0)

\* ------------------------------------------------------------------ 2  PDU session type
CheckPduToModels(e) ==
  Crash(e) \cup
  IF e.panic THEN {} ELSE
  IF Len(e.in) # Len(e.out) THEN {<<"incomplete", 0>>}
  ELSE {<<"assigned-value", e.in[k]>> : k \in {j \in 1..Len(e.in) : e.in[j] \in McPduAssigned /\ e.out[j] # McPduName(e.in[j])}}
       \cup {<<"unused-value-not-ipv4v6", e.in[k]>> : k \in {j \in 1..Len(e.in) : e.in[j] \in McPduUnused /\ e.out[j] # "IPV4V6"}}
CheckPduToNas(e) ==
  Crash(e) \cup
  IF e.panic THEN {} ELSE
  IF Len(e.in) # Len(e.out) THEN {<<"incomplete", 0>>}
  ELSE {<<"name-value", k>> : k \in {j \in 1..Len(e.in) : e.in[j] \in McPduNames /\ e.out[j] # McPduValue(e.in[j])}}
\* ------------------------------------------------------------------ 3  ngKSI
CheckKsiToModels(e) ==
  Crash(e) \cup
  IF e.panic THEN {} ELSE
  IF Len(e.in) # Len(e.tsc) \/ Len(e.in) # Len(e.ksi) THEN {<<"incomplete", 0>>}
  ELSE LET ok(k) == [tsc |-> e.tsc[k], ksi |-> e.ksi[k]] = McKsiOfOctet(e.in[k]) IN FirstOf(Len(e.in), ok, "ngksi-to-models")
CheckKsiToNas(e) ==
  Crash(e) \cup
  IF e.panic THEN {} ELSE
  IF Len(e.out) # Len(e.tsc) \/ Len(e.out) # Len(e.ksi) THEN {<<"incomplete", 0>>}
  ELSE LET m(k) == [tsc |-> e.tsc[k], ksi |-> e.ksi[k]]
           ok(k) == m(k) \in McKsiModels => e.out[k] = McOctetOfKsi(m(k))
           spare(k) == e.out[k] \in 0..15 IN
       FirstOf(Len(e.out), ok, "ngksi-to-nas") \cup FirstOf(Len(e.out), spare, "spare-half-octet-not-zero")

\* ------------------------------------------------------------------ 4  DNN
DnnPrevText(p) == IF McDnnExact(p, 1, 0, 255) THEN McJoin(McDnnLabels(p, 1)) ELSE << >>
DnnAccepted(e, enc) == e.buf = enc /\ e.len = Len(enc) /\ e.get = e.name
DnnRefused(e) == e.buf = e.prev /\ e.len = e.prevlen /\ e.get = DnnPrevText(e.prev)
CheckDnnSet(e) ==
  Crash(e) \cup
  IF e.panic \/ e.hang THEN {} ELSE
  LET ls == McSplit(e.name)
      enc == McDnnEncode(ls) IN
  (IF McDnnWellFormed(ls)
   THEN (IF DnnAccepted(e, enc) THEN {}
         ELSE IF e.buf # enc THEN {<<"well-formed-name-octets", Len(e.buf) - Len(enc)>>}
         ELSE IF e.len # Len(enc) THEN {<<"length-field", e.len>>}
         ELSE {<<"text-not-returned", Len(e.get)>>})
   ELSE Bad(DnnAccepted(e, enc) \/ DnnRefused(e), "ill-formed-name-mangled", Len(e.buf)))
  \cup Bad(e.heldbuf = e.buf /\ e.heldget = e.get, "result-changed-after-return", 0)
DnnSetInfo(e) ==
  IF e.panic \/ e.hang THEN {} ELSE
  LET ls == McSplit(e.name) IN
  IF McDnnWellFormed(ls) THEN {}
  ELSE {<<McDnnClass(ls), IF DnnAccepted(e, McDnnEncode(ls)) THEN "accepted" ELSE "refused">>}
CheckDnnGet(e) ==
  Crash(e) \cup
  IF e.panic \/ e.hang THEN {} ELSE
  (IF McDnnExactStd(e.buf) THEN Bad(e.get = McJoin(McDnnLabels(e.buf, 1)), "text", Len(e.get)) ELSE {})
  \cup Bad(e.after = e.buf, "getter-wrote", 0)
DnnGetInfo(e) ==
  IF e.panic \/ e.hang \/ McDnnExactStd(e.buf) THEN {}
  ELSE {<<"ill-formed-buffer", IF McDnnExact(e.buf, 1, 0, 255) THEN "zero-or-long-label" ELSE "label-past-end">>}

\* ------------------------------------------------------------------ 5  UPU
HexN(t, n) == Len(t) = n /\ McIsHex(t)
Tup(f) == SubSeq(f, 1, Len(f))
UpuPre(e) == /\ HexN(e.mac, 32) /\ HexN(e.ctr, 4)
             /\ \A k \in 1..Len(e.sets) :
                   /\ McIsHex(e.sets[k].sec)
                   /\ \A i \in 1..Len(e.sets[k].nssai) :
                         LET v == e.sets[k].nssai[i] IN v.sst \in 0..255 /\ (v.sd = << >> \/ HexN(v.sd, 6))
UpuApiSet(s) == [sec |-> Tup(McUnhex(s.sec)), nssai |-> [i \in 1..Len(s.nssai) |-> [sst |-> s.nssai[i].sst, sd |-> Tup(McUnhex(s.nssai[i].sd))]]]
UpuApiSets(e) == [k \in 1..Len(e.sets) |-> UpuApiSet(e.sets[k])]
CheckUpu(e) ==
  Crash(e) \cup
  IF e.panic \/ e.hang \/ ~UpuPre(e) THEN {} ELSE
  LET ss == McUpuSetsOfApi(Tup(UpuApiSets(e)))
      mac == Tup(McUnhex(e.mac))
      ctr == Tup(McUnhex(e.ctr))
      want == McUpuEncode(e.reg, e.ack, mac, ctr, ss)
      tail == IF Len(e.out) >= 20 THEN SubSeq(e.out, 20, Len(e.out)) ELSE << >> IN
  (IF e.out = want THEN {}
   ELSE Bad(Len(e.out) >= 1 /\ e.out[1] = McUpuHeader(e.reg, e.ack), "header", IF Len(e.out) >= 1 THEN e.out[1] ELSE -1)
        \cup Bad(Len(e.out) >= 19 /\ SubSeq(e.out, 2, 19) = mac \o ctr, "mac-counter", Len(e.out))
        \cup (IF Len(e.out) < 19 \/ tail = McUpuSets(ss, 2) THEN {}
              ELSE IF tail = McUpuSets(ss, 1) THEN {<<"dataset-length-one-octet", Len(ss)>>}
              ELSE {<<"data-sets", Len(tail)>>}))
  \cup Bad(e.held = e.out, "result-changed-after-return", 0)
UpuInfo(e) == IF e.panic \/ e.hang \/ UpuPre(e) THEN {} ELSE {<<"ill-formed-input", Len(e.out)>>}

\* ------------------------------------------------------------------ 6  5G-S-TMSI
CheckTmsi(e) ==
  Crash(e) \cup
  IF e.panic THEN {} ELSE
  IF Len(e.octs) # 7 THEN {<<"incomplete", 0>>} ELSE
  (IF e.err THEN Bad(e.octs[1] % 8 # 4, "error", e.octs[1])          \* an object whose type of identity is 5G-S-TMSI (100) always has one
   ELSE Bad(e.text = McTmsiText(e.octs), "text", Len(e.text)) \cup Bad(e.type = McTmsiTypeName, "type-name", Len(e.type)))
  \cup (IF e.how = "set" /\ e.set \in 0..1023 /\ e.ptr \in 0..63
        THEN Bad(SubSeq(e.octs, 2, 7) = McTmsiOctets(e.set, e.ptr, e.tmsi), "identifier-octets", e.order) ELSE {})

\* ------------------------------------------------------------------ 7  causes
CheckCause(e) ==
  Crash(e) \cup
  IF e.panic THEN {} ELSE
  IF Len(e.out) # 256 THEN {<<"incomplete", Len(e.out)>>} ELSE
  {<<"no-text-for-cause-" \o ToString(c), c>> : c \in {d \in McKnownCauses : e.out[d + 1] = << >>}}
  \cup {<<"same-text-for-two-causes", c>> : c \in {d \in McKnownCauses : e.out[d + 1] # << >> /\ \E f \in McKnownCauses : f < d /\ e.out[f + 1] = e.out[d + 1]}}
CauseInfo(e) == IF e.panic \/ Len(e.out) # 256 THEN {}
                ELSE {<<"unassigned-cause-has-text", c>> : c \in {d \in 0..255 \ McKnownCauses : e.out[d + 1] # << >>}}

\* ------------------------------------------------------------------ 8  header octets
CheckSecHdr(e) ==
  LET n == Len(e.in)
      epdOK(k) == Len(e.in[k]) >= 1 => (~e.epanic[k] /\ e.epd[k] = McEpd(e.in[k]))
      noPanic(k) == Len(e.in[k]) >= 2 => ~e.spanic[k]
      shtOK(k) == (Len(e.in[k]) >= 2 /\ ~e.spanic[k]) => (e.sht[k] = McSecHdrType(e.in[k]) \/ e.sht[k] = e.in[k][2])
      spareOK(k) == (Len(e.in[k]) >= 2 /\ ~e.spanic[k]) => (e.sht[k] = McSecHdrType(e.in[k]) \/ e.sht[k] # e.in[k][2])
      same(k) == e.after[k] = e.in[k] IN
  IF Len(e.epd) # n \/ Len(e.sht) # n \/ Len(e.epanic) # n \/ Len(e.spanic) # n \/ Len(e.after) # n THEN {<<"incomplete", 0>>}
  ELSE FirstOf(n, epdOK, "epd") \cup FirstOf(n, noPanic, "panic") \cup FirstOf(n, shtOK, "security-header-type")
       \cup FirstOf(n, spareOK, "spare-half-octet-not-ignored") \cup FirstOf(n, same, "getter-wrote")
SecHdrInfo(e) == IF \E k \in 1..Len(e.in) : (Len(e.in[k]) < 1 /\ e.epanic[k]) \/ (Len(e.in[k]) < 2 /\ e.spanic[k])
                 THEN {<<"short-array-panics", 0>>} ELSE {}
CheckHdrSet(e) ==
  Crash(e) \cup
  IF e.panic THEN {} ELSE
  LET n == IF e.which = "gmm" THEN 3 ELSE 4
      idx == IF e.f = "epd" THEN 1 ELSE n                 \* message type: octet 3 of a 5GMM, octet 4 of a 5GSM message (9.1.1)
      pre == SubSeq(e.pre, 1, n)
      ok(k) == e.posts[k] = [pre EXCEPT ![idx] = e.vs[k]] /\ e.gets[k] = e.vs[k] IN
  IF Len(e.posts) # Len(e.vs) \/ Len(e.gets) # Len(e.vs) THEN {<<"incomplete", 0>>} ELSE FirstOf(Len(e.vs), ok, "header-field")

\* ------------------------------------------------------------------ 9  PLMN getters
CheckPlmnRow(e) ==
  Crash(e) \cup
  IF e.panic THEN {} ELSE
  LET n == Len(e.mncs)
      noPanic(k) == ~e.serr[k] => ~e.gpanic[k]
      inv(k) == (~e.serr[k] /\ ~e.gpanic[k]) => e.g[k] = <<e.mcc, e.mncs[k]>>
      oct(k) == (~e.serr[k] /\ ~e.gpanic[k] /\ UePlmnWellFormed(e.octs[k])) => e.g[k] = McPlmnOf(e.octs[k]) IN
  IF Len(e.serr) # n \/ Len(e.octs) # n \/ Len(e.g) # n \/ Len(e.gpanic) # n THEN {<<"incomplete", 0>>}
  ELSE FirstOf(n, noPanic, "panic") \cup FirstOf(n, inv, "getter-not-inverse-of-setter") \cup FirstOf(n, oct, "getter-vs-octets")
PlmnRowInfo(e) == IF e.panic THEN {} ELSE
                  LET R == {k \in 1..Len(e.mncs) : e.serr[k] /\ e.mcc \in 0..999 /\ e.mncs[k] \in 0..999} IN
                  IF R = {} THEN {} ELSE {<<"plmn-refused-by-setter", Cardinality(R)>>}
CheckPlmnParse(e) ==
  Crash(e) \cup
  IF e.panic THEN {} ELSE
  LET n == Len(e.octs)
      noPanic(k) == ~e.perr[k] => ~e.gpanic[k]
      oct(k) == (~e.perr[k] /\ ~e.gpanic[k] /\ UePlmnWellFormed(e.octs[k])) => e.g[k] = McPlmnOf(e.octs[k]) IN
  IF Len(e.perr) # n \/ Len(e.g) # n \/ Len(e.gpanic) # n THEN {<<"incomplete", 0>>}
  ELSE FirstOf(n, noPanic, IF e.how = "direct" THEN "never-set-panics" ELSE "panic") \cup FirstOf(n, oct, "getter-vs-octets")
CheckPlmnFresh(e) ==
  IF e.panic THEN (IF e.plib THEN {<<"never-set-panics", 0>>} ELSE {})
  ELSE Bad(e.g = McPlmnOf(<<0, 0, 0>>), "fresh-value", 0)

\* ------------------------------------------------------------------ dispatch
Ops == {"PcoBuild", "PduToModels", "PduToNas", "KsiToModels", "KsiToNas", "DnnSet", "DnnGet", "UpuToNas", "Tmsi",
        "CauseText", "SecHdr", "HdrSet", "PlmnRow", "PlmnParse", "PlmnFresh"}
Verdicts(e) ==
  CASE e.op = "PcoBuild"    -> CheckPco(e)
    [] e.op = "PduToModels" -> CheckPduToModels(e)
    [] e.op = "PduToNas"    -> CheckPduToNas(e)
    [] e.op = "KsiToModels" -> CheckKsiToModels(e)
    [] e.op = "KsiToNas"    -> CheckKsiToNas(e)
    [] e.op = "DnnSet"      -> CheckDnnSet(e)
    [] e.op = "DnnGet"      -> CheckDnnGet(e)
    [] e.op = "UpuToNas"    -> CheckUpu(e)
    [] e.op = "Tmsi"        -> CheckTmsi(e)
    [] e.op = "CauseText"   -> CheckCause(e)
    [] e.op = "SecHdr"      -> CheckSecHdr(e)
    [] e.op = "HdrSet"      -> CheckHdrSet(e)
    [] e.op = "PlmnRow"     -> CheckPlmnRow(e)
    [] e.op = "PlmnParse"   -> CheckPlmnParse(e)
    [] e.op = "PlmnFresh"   -> CheckPlmnFresh(e)
    [] OTHER -> {}
Infos(e) ==
  CASE e.op = "DnnSet"    -> DnnSetInfo(e)
    [] e.op = "DnnGet"    -> DnnGetInfo(e)
    [] e.op = "UpuToNas"  -> UpuInfo(e)
    [] e.op = "CauseText" -> CauseInfo(e)
    [] e.op = "SecHdr"    -> SecHdrInfo(e)
    [] e.op = "PlmnRow"   -> PlmnRowInfo(e)
    [] OTHER -> {}

\* information lines: at most 40 per operation and shard (one TLC register per operation)
InfoReg(e) == CASE e.op = "DnnSet" -> 3 [] e.op = "DnnGet" -> 4 [] e.op = "UpuToNas" -> 5 [] e.op = "CauseText" -> 6 [] e.op = "SecHdr" -> 7 [] OTHER -> 8
Report(e) ==
  /\ IF e.op \in Ops THEN TRUE ELSE PrintT(<<"HARNESS", l, "unknown op">>)
  /\ IF e.op \in Ops /\ Harness(e) THEN PrintT(<<"HARNESS", l, "panic outside the library", e.pfn>>) ELSE TRUE
  /\ \A t \in Verdicts(e) : PrintT(<<"MISMATCH", l, e.op, t[1], t[2]>>)
  /\ \A t \in Infos(e) : IF TLCGet(InfoReg(e)) >= 40 THEN TRUE ELSE PrintT(<<"DIVERGE", l, e.op, t[1], t[2]>>) /\ TLCSet(InfoReg(e), TLCGet(InfoReg(e)) + 1)

TInit == l = 1 /\ \A r \in 2..8 : TLCSet(r, 0)
TNext == /\ l <= Len(TraceLog)
         /\ (Report(TraceLog[l]) = TRUE)
         /\ TLCSet(2, l)
         /\ l' = l + 1
Consumed == PrintT(<<"CONSUMED", TLCGet(2)>>)
==========================================================================
