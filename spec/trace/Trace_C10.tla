------------------------------- MODULE Trace_C10 -------------------------------
(* C10: purity observed on the real code.
   PureD: the slice handed to the decoder is unchanged afterwards; after inverting every input octet the decoded
   message still projects to the same values (no aliasing input -> message); after inverting every octet stored in
   the message the input slice still holds the inverted input (no aliasing message -> input); a second decode of the
   same octets yields the same message (determinism).
   PureE: encoding a well-formed message succeeds, leaves the message unchanged, keeps the caller's buffer prefix and
   only appends; a second encoding yields the same octets.
   PureLater: one event for all messages of the PureE events before it, each encoded once more more than a second after
   its first encoding: `which` lists those whose octets differ (the driver compares octets, the verdict is taken here). *)
EXTENDS TraceCodecLib
VARIABLE l
Invert(s) == [i \in 1..Len(s) |-> 255 - s[i]]
Pat(p) == (p * 37 + 11) % 256
Pre(n) == [i \in 1..n |-> Pat(i)]
SameProj(a, b) == a.msg = b.msg /\ a.mand = b.mand /\ a.opt = b.opt /\ a.bodies = b.bodies /\ a.hdr = b.hdr
Check(e) ==
  CASE e.op = "PureD" ->
        IF e.panic THEN "panic"
        ELSE IF e.inp_after # e.inp THEN "input-modified-by-decode"
        ELSE IF ~SameProj(e.d_scr, e.d1) THEN (IF e.ok THEN "message-aliases-input" ELSE "rejected-message-aliases-input")
        ELSE IF e.inp_scr # Invert(e.inp) THEN "input-aliases-message"
        ELSE IF ~SameProj(e.d_twice, e.d1) THEN "decode-not-deterministic"
        ELSE "ok"
    [] e.op = "PureE" ->
        LET M == Msgs[MsgByName(e.m)]  m == [mand |-> e.mand, opt |-> e.opt] IN
        IF e.panic \/ ~e.ok THEN "encode-fails"
        ELSE IF e.prefix # Pre(e.pre) THEN "buffer-prefix-overwritten"
        ELSE IF ~MsgEq(m, e.after, M) \/ e.after.hdr # e.hdr0 THEN "message-modified-by-encode"
        ELSE IF e.again # e.tail THEN "encode-not-deterministic"
        ELSE IF e.held # e.again THEN "encode-result-aliases-library-memory"
        ELSE "ok"
    [] e.op = "PureLater" ->        \* the messages of the PureE events so far, encoded once more over a second later
        IF e.which # <<>> THEN "encode-depends-on-the-moment-of-the-call" ELSE "ok"
    [] OTHER -> "ok"
Info(e) == e.op = "PureE" => (e.tail = Encode(Msgs[MsgByName(e.m)], [mand |-> e.mand, opt |-> e.opt]))
Init == l = 1 /\ TLCSet(2, 0)
Next == /\ l <= Len(TraceLog)
        /\ LET c == Check(TraceLog[l]) IN
           IF c = "ok" THEN TRUE ELSE PrintT(<<"MISMATCH", l, c>>)
        /\ IF Info(TraceLog[l]) THEN TRUE ELSE PrintT(<<"NOTE", l, "appended-octets-differ-from-table-encoder">>)
        /\ TLCSet(2, l) /\ l' = l + 1
Consumed == PrintT(<<"CONSUMED", TLCGet(2)>>)
=================================================================================
