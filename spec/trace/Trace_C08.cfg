INIT TInit
NEXT TNext
CONSTANTS Cells = {1} Algs = {0} Keys = {0} Counts = {0} Bearers = {0} Dirs = {0} Sym = {0} MaxLen = 0 Pats = {} MacVals = {} MaxPoints = 0 MaxRes = 1 MacTop = 255 Nil = Nil WithNil = FALSE
CHECK_DEADLOCK FALSE
POSTCONDITION Consumed
