---------------------------- MODULE TraceCodecLib ----------------------------
(* Shared by the codec trace specifications: the log, the cursor protocol of a TOTAL trace spec
   (a mismatch is printed and counted, never disables Next), and comparison of a model message
   value with the harness projection of a real message (see harness/internal/reflectmsg). *)
EXTENDS NasCodec, Json, TLC
TraceLog == ndJsonDeserialize("trace.ndjson")

\* model slot value ms vs harness slot hs for table slot s
SlotEq(ms, hs, s) ==
   /\ ms.p = hs.p
   /\ ms.p => /\ ms.v = hs.v
              /\ (s.lsz > 0 => ms.len = hs.len)
              /\ ((~s.mand /\ ~s.half /\ s.data # "none") => ms.iei = hs.iei)
\* model message d (mand, opt) vs harness projection h (mand, opt) for table M
MsgEq(d, h, M) ==
   /\ Len(h.mand) = Len(M.mand) /\ Len(h.opt) = Len(M.opt)
   /\ \A k \in 1..Len(M.mand) : SlotEq(d.mand[k], h.mand[k], M.mand[k])
   /\ \A k \in 1..Len(M.opt) : SlotEq(d.opt[k], h.opt[k], M.opt[k])
\* a routed decode result r ([ok, msg, mand, opt]) vs an observed decode event e
DecAgrees(r, e) ==
   /\ r.ok = e.ok
   /\ r.ok => /\ r.msg = e.msg
              /\ MsgEq(r, e, Msgs[MsgByName(r.msg)])
\* inputs "built from known identifiers": the table-driven parse never takes the SkipUnknown branch
RECURSIVE KnownOnly(_, _, _)
KnownOnly(inp, pos, M) ==
  IF pos > Len(inp) THEN TRUE
  ELSE LET b == inp[pos]  ks == Match(M, TagOf(b)) IN
       IF ks = {} THEN FALSE
       ELSE LET s == M.opt[First(ks)] IN
            IF s.half THEN KnownOnly(inp, pos + 1, M)
            ELSE LET r == Body(inp, pos + 1, s, b) IN (~r.ok) \/ KnownOnly(inp, r.pos, M)
AllKnown(M, inp) == LET m == Mand(inp, 1, M, 1, <<>>) IN (~m.ok) \/ KnownOnly(inp, m.pos, M)
RouteTable(entry, bm, inp) ==
  IF entry = "body" THEN {MsgByName(bm)} ELSE
  LET fam == IF entry = "gmm" THEN "GMM" ELSE IF entry = "gsm" THEN "GSM"
             ELSE IF Len(inp) = 0 THEN "none" ELSE IF inp[1] = EpdGmm THEN "GMM" ELSE IF inp[1] = EpdGsm THEN "GSM" ELSE "none"
      c == IF fam = "GMM" /\ Len(inp) >= 3 THEN GmmByType(inp[3])
           ELSE IF fam = "GSM" /\ Len(inp) >= 4 THEN GsmByType(inp[4]) ELSE {}
  IN c
===============================================================================
