----------------------------- MODULE Trace_C06 -----------------------------
(* Trace validation for C06.  Every event is one call of a ciphering entry point of the real library
   (security.NEA1/NEA2/NEA3 with a bit length, security.NASEncrypt in place with a byte length,
   snow3g.GetKeyStream, zuc.Zuc), logged with its arguments and its result.  TLC recomputes the standard
   function (Eea.tla) and compares the first `nbits` bits: the pad bits of a partial last octet are masked on
   both sides, the standards define only LENGTH output bits.  Total: a disagreement is printed as
   MISMATCH and the cursor moves on. *)
EXTENDS Eea, Json, TLC
VARIABLE l
TraceLog == ndJsonDeserialize("trace.ndjson")
Cipher == {"NEA1", "NEA2", "NEA3", "NASEncrypt"}
Expected(e) ==
  CASE e.op \in Cipher -> EEA(e.alg, e.key, e.cnt, e.bearer, e.dir, e.data, e.nbits)
    [] e.op = "GetKeyStream" -> Snow3gWords(e.key, e.data, e.nbits \div 32)
    [] e.op = "Zuc" -> ZucWords(e.key, e.data, e.nbits \div 32)
\* in domain: the statement quantifies over bearers 0..31, directions 0..1, algorithm identities 1..3
InDomain(e) ==
  /\ e.op \in Cipher \cup {"GetKeyStream", "Zuc"}
  /\ e.op \in Cipher => (e.alg \in 1..3 /\ e.bearer \in 0..31 /\ e.dir \in 0..1 /\ Len(e.data) = NBytes(e.nbits))
\* OutputFresh: a returned slice is a value the caller owns.  After logging a result the harness inverted every octet of the
\* returned slice in place; `prev` is that result as logged, `held` what the slice holds after the present call: a later
\* call must not change an earlier result (and the write must not influence later results: that shows as "value").
InvS(s) == LET n == Len(s) IN SubSeq([i \in 1..n |-> 255 - s[i]], 1, n)
OutputFresh(e) == e.held = InvS(e.prev)
Verdict(e) ==
  IF ~InDomain(e) THEN "out-of-domain"      \* the harness only makes in-domain calls: reported, treated as a harness problem
  ELSE IF e.panic THEN "panic"
  ELSE IF e.err THEN "error"
  ELSE IF Len(e.out) # NBytes(e.nbits) THEN "length"
  ELSE IF MaskBits(e.out, e.nbits) # Expected(e) THEN "value"
  ELSE IF ~OutputFresh(e) THEN "result-changed"
  ELSE "ok"
TInit == l = 1 /\ TLCSet(2, 0)
TNext ==
  /\ l <= Len(TraceLog)
  /\ (LET e == TraceLog[l]  v == Verdict(e) IN
        IF v = "ok" THEN TRUE ELSE PrintT(<<"MISMATCH", l, e.op, e.alg, e.nbits, v>>))
  /\ TLCSet(2, l)
  /\ l' = l + 1
Consumed == PrintT(<<"CONSUMED", TLCGet(2)>>)
=============================================================================
