----------------------------- MODULE Trace_C07 -----------------------------
(* Trace validation for C07.  Every event is one call of an integrity entry point of the real library
   (security.NIA1/NIA2/NIA3 with a bit length, security.NASMacCalculate with a byte length), logged with its
   arguments and its result.  TLC recomputes the standard MAC (Eia.tla); the observation must be exactly the
   4 octets of the specification.  Total: a disagreement is printed as MISMATCH and the cursor moves on. *)
EXTENDS Eia, Json, TLC
VARIABLE l
TraceLog == ndJsonDeserialize("trace.ndjson")
Ops == {"NIA1", "NIA2", "NIA3", "NASMacCalculate"}
\* in domain: bearers 0..31, directions 0..1, algorithm identities 1..3, a message of exactly nbits bits (zero pad bits)
InDomain(e) ==
  /\ e.op \in Ops /\ e.alg \in 1..3 /\ e.bearer \in 0..31 /\ e.dir \in 0..1
  /\ Len(e.data) = NBytes(e.nbits) /\ MaskBits(e.data, e.nbits) = e.data
  /\ (e.alg = 2 \/ e.op = "NASMacCalculate") => e.nbits % 8 = 0
\* OutputFresh: a returned slice is a value the caller owns.  After logging a result the harness inverted every octet of the
\* returned slice in place; `prev` is that result as logged, `held` what the slice holds after the present call: a later
\* call must not change an earlier result (and the write must not influence later results: that shows as "value").
InvS(s) == LET n == Len(s) IN SubSeq([i \in 1..n |-> 255 - s[i]], 1, n)
OutputFresh(e) == e.held = InvS(e.prev)
Verdict(e) ==
  IF ~InDomain(e) THEN "out-of-domain"      \* the harness only makes in-domain calls: reported, treated as a harness problem
  ELSE IF e.panic THEN "panic"
  ELSE IF e.err THEN "error"
  ELSE IF Len(e.out) # 4 THEN "length"
  ELSE IF e.out # EIA(e.alg, e.key, e.cnt, e.bearer, e.dir, e.data, e.nbits) THEN "value"
  ELSE IF ~OutputFresh(e) THEN "result-changed"
  ELSE "ok"
TInit == l = 1 /\ TLCSet(2, 0)
TNext ==
  /\ l <= Len(TraceLog)
  /\ (LET e == TraceLog[l]  v == Verdict(e) IN
        IF v = "ok" THEN TRUE ELSE PrintT(<<"MISMATCH", l, e.op, e.alg, e.nbits, v>>))
  /\ TLCSet(2, l)
  /\ l' = l + 1
Consumed == PrintT(<<"CONSUMED", TLCGet(2)>>)
=============================================================================
