---------------------------- MODULE Trace_C19sec ----------------------------
(* Trace validation for family f08 of C19: calls of security.NASEncrypt / security.NASMacCalculate that never reach a
   cipher (NULL algorithms, refusals), made by many goroutines at once, each judged by the sequential laws of
   SecurityApi.tla (C08): a refusal is an error that leaves the payload untouched / returns no MAC; algorithm 0 leaves
   the payload unchanged and gives the all-zero MAC of exactly 4 octets; no panic.  Event shape: harness/cmd/sec Ev.
   `out` is the payload after the call (NASEncrypt) or the returned MAC (NASMacCalculate).
   MISMATCH lines: <<"MISMATCH", l, op, alg, nbits, verdict>>. *)
EXTENDS Integers, Sequences, Json, TLC
VARIABLE l
TraceLog == ndJsonDeserialize("trace.ndjson")
GuardOK(alg, bearer, dir) == bearer <= 31 /\ dir <= 1 /\ alg \in 0..3
InvS(s) == LET n == Len(s) IN SubSeq([i \in 1..n |-> 255 - s[i]], 1, n)
InDomain(e) == e.op \in {"NASEncrypt", "NASMacCalculate"} /\ (~GuardOK(e.alg, e.bearer, e.dir) \/ e.alg = 0)
Verdict(e) ==
  IF ~InDomain(e) THEN "out-of-domain"
  ELSE IF e.panic THEN "panic"
  ELSE IF ~GuardOK(e.alg, e.bearer, e.dir) THEN
         (IF ~e.err THEN "guard-accepts-invalid"
          ELSE IF e.op = "NASEncrypt" /\ e.out # e.data THEN "error-touched-payload"
          ELSE IF e.op = "NASMacCalculate" /\ e.out # <<>> THEN "error-with-mac"
          ELSE "ok")
  ELSE IF e.err THEN "null-algorithm-refused"
  ELSE IF e.op = "NASEncrypt" /\ e.out # e.data THEN "null-cipher-changed-payload"
  ELSE IF e.op = "NASMacCalculate" /\ e.out # <<0, 0, 0, 0>> THEN "null-mac-not-zero"
  ELSE IF e.held # InvS(e.prev) THEN "result-changed"
  ELSE "ok"
TInit == l = 1 /\ TLCSet(2, 0)
TNext ==
  /\ l <= Len(TraceLog)
  /\ (LET e == TraceLog[l]  v == Verdict(e) IN
        IF v = "ok" THEN TRUE ELSE PrintT(<<"MISMATCH", l, e.op, e.alg, e.nbits, v>>))
  /\ TLCSet(2, l)
  /\ l' = l + 1
Consumed == PrintT(<<"CONSUMED", TLCGet(2)>>)
=============================================================================
