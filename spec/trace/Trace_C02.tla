------------------------------- MODULE Trace_C02 -------------------------------
(* C02: for a well-formed message value (the case), the real encoder must succeed, the real decoder
   must accept the produced octets and return the same message field for field.  The specification's
   own law Decode(Encode(m)) = m is evaluated on the same value, and the produced octets are compared
   with Encode(m) as information (C04 judges them). *)
EXTENDS TraceCodecLib
VARIABLE l
HdrOf(m, M) == LET n == IF M.fam = "GSM" THEN 4 ELSE 3 IN SubSeq([k \in 1..n |-> m.mand[k].v[1]], 1, n)
Check(e) ==
  IF e.op # "RT" THEN "ok"
  ELSE LET M == Msgs[MsgByName(e.m)]  m == [mand |-> e.mand, opt |-> e.opt] IN
       IF ~WellFormed(M, m) THEN "case-not-wellformed"        \* harness/generator error, not a verdict
       ELSE IF e.panic THEN "panic"
       ELSE IF ~e.encok THEN "encode-fails"
       ELSE IF ~e.decok THEN "decode-of-own-encoding-fails"
       ELSE IF e.d.msg # e.m THEN "decodes-to-other-message"
       ELSE IF ~MsgEq(m, e.d, M) THEN "decoded-message-differs"
       \* through the discriminator-dispatched entry points the decoded message also carries a header view: it equals the
       \* original's, which (precondition of the statement) equals the body's own header octets
       ELSE IF e.via = "plain" /\ M.fam \in {"GMM", "GSM"} /\ e.d.hdr # HdrOf(m, M) THEN "decoded-header-view-differs"
       ELSE LET d == Decode(M, Encode(M, m)) IN
            IF ~(d.ok /\ d.mand = m.mand /\ d.opt = m.opt) THEN "spec-roundtrip-fails"
            ELSE "ok"
Init == l = 1 /\ TLCSet(2, 0)
Next == /\ l <= Len(TraceLog)
        /\ LET c == Check(TraceLog[l]) IN
           IF c = "ok" THEN TRUE ELSE PrintT(<<"MISMATCH", l, c>>)
        /\ TLCSet(2, l) /\ l' = l + 1
Consumed == PrintT(<<"CONSUMED", TLCGet(2)>>)
=================================================================================
