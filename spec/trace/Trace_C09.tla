----------------------------- MODULE Trace_C09 -----------------------------
(* Trace validation for C09.  Event "Set": on a real element of type IeTypes[ti] whose storage was
   filled with the prior contents (piei, plen, poct) the driver called Get<Field> (g0/gs0),
   Set<Field>(v or vs), read everything back (qiei, qlen, qoct) and called Get<Field> again
   (g1/gs1).  The reference accessors of IeLayout, applied to the documented position of the field
   (IeFieldTable), decide:
     getter      g0 = GetField(prior), g1 = GetField(observed post)      "returns exactly the documented bits"
     outside     every bit outside the field, Iei and Len are as before   "changes no bit outside its own field"
     roundtrip   g1 = the value truncated to the field width              "set-then-get"
   Exemptions (DESIGN C09-V): SetLen of a Buffer-backed element is the allocator - only Len, Iei and
   the getter are judged; an open-ended field is judged on the octets before it, on the octets the
   value covers and on Iei/Len (a different treatment of the tail or of the size is a NOTE).
   Event "Digest": weighted sums over all 256 prior values x of one touched octet of
   (post octets of the field's rows, getter result) and of everything else, for one value v;
   compared with the same fold of SetField/GetField (DESIGN 4.3).
   Classes: the specification itself names the class of a mismatch; "low6" is the recorded defect
   (a 10-bit field spanning two octets whose setter clears the six low bits of the second octet,
   everything else exactly as specified) - any other deviation of the same setter has another class. *)
EXTENDS IeLayout, Json, TLC, FiniteSetsExt
VARIABLES l
TraceLog == ndJsonDeserialize("trace.ndjson")

TY(e) == IeTypes[e.ti]
FD(e) == IeTypes[e.ti].fields[e.fi]
WellFormed(e) == /\ e.ti \in 1..Len(IeTypes) /\ e.fi \in 1..Len(IeTypes[e.ti].fields)
                 /\ TY(e).name = e.type /\ FD(e).name = e.field /\ FD(e).kind # "string"
Prior(e) == [iei |-> e.piei, len |-> e.plen, oct |-> e.poct]
PostOf(e) == [iei |-> e.qiei, len |-> e.qlen, oct |-> e.qoct]
Val(e)   == IF IsScalar(FD(e)) THEN e.v ELSE e.vs
Got0(e)  == IF IsScalar(FD(e)) THEN e.g0 ELSE e.gs0
Got1(e)  == IF IsScalar(FD(e)) THEN e.g1 ELSE e.gs1
Want(e)  == SetField(Prior(e), FD(e), Val(e))
IsAlloc(e) == FD(e).kind = "len" /\ TY(e).cont = "buffer"

\* the recorded defect: the second octet of a 10-bit field loses its six low bits
Low6(w, f)    == [w EXCEPT !.oct[f.r1 + 1] = (@ \div 64) * 64]
Low6Field(f)  == f.kind = "bits" /\ f.r1 = f.r0 + 1 /\ f.sbit = 8 /\ f.n = 10

SeqEq(a, b) == Len(a) = Len(b) /\ \A i \in 1..Len(a) : a[i] = b[i]
GetterOK(e) == /\ Got0(e) = GetField(Prior(e), FD(e))
               /\ IsAlloc(e) \/ Got1(e) = GetField(PostOf(e), FD(e))
OutsideOK(e) ==
  LET f == FD(e)  p == Prior(e)  q == PostOf(e) IN
  /\ f.kind # "iei" => q.iei = p.iei
  /\ f.kind # "len" => q.len = p.len
  /\ CASE IsAlloc(e) -> TRUE
       [] f.kind = "slice" -> Len(q.oct) >= f.r0 /\ \A i \in 1..f.r0 : q.oct[i] = p.oct[i]
       [] f.kind \in {"iei", "len"} -> SeqEq(q.oct, p.oct)
       [] OTHER -> LET L == Len(p.oct)
                       rows == Rows(f, L) IN
                   /\ Len(q.oct) = L
                   /\ \A i \in 1..L :
                        IF (i - 1) \notin rows THEN q.oct[i] = p.oct[i]
                        ELSE IF (i - 1) * 8 >= LoPos(f) /\ (i - 1) * 8 + 7 <= HiPos(f) THEN TRUE    \* wholly inside the field
                        ELSE \A k \in 0..7 : LET pos == (i - 1) * 8 + k IN
                               (pos < LoPos(f) \/ pos > HiPos(f)) => BitAt(q.oct, pos) = BitAt(p.oct, pos)
FieldOK(e) ==
  LET f == FD(e)  q == PostOf(e) IN
  CASE IsAlloc(e) -> q.len = e.v /\ e.g1 = e.v
    [] f.kind = "slice" -> /\ \A i \in 1..Min(Len(e.vs), Len(q.oct) - f.r0) : q.oct[f.r0 + i] = e.vs[i]
                           /\ (Len(q.oct) = Len(e.poct) => Got1(e) = Truncated(Prior(e), f, Val(e)))
    [] OTHER -> Got1(e) = Truncated(Prior(e), f, Val(e)) /\ GetField(q, f) = Truncated(Prior(e), f, Val(e))
\* the observed contents have a size on which the reference accessors are defined
Sized(e) == CASE IsAlloc(e) -> TRUE
              [] FD(e).kind = "slice" -> Len(e.qoct) >= FD(e).r0
              [] OTHER -> Len(e.qoct) = Len(e.poct)
ClassOf(e) ==
  CASE ~WellFormed(e) -> "badevent"
    [] e.panic # "" -> "panic"
    [] ~Sized(e) -> "outside"
    [] ~GetterOK(e) -> "getter"
    [] Low6Field(FD(e)) /\ PostOf(e) = Low6(Want(e), FD(e)) /\ PostOf(e) # Want(e) /\ FieldOK(e) -> "low6"
    [] ~OutsideOK(e) -> "outside"
    [] ~FieldOK(e) -> "roundtrip"
    [] OTHER -> "ok"
\* information: the whole element equals the reference result (differs e.g. when an open-ended setter resizes)
Exact(e) == IsAlloc(e) \/ PostOf(e) = Want(e)

\* ---- digest conformance
P1 == 46337
P2 == 46327
P3 == 46309
OtherOctet(j) == (165 + 37 * j) % 256               \* j = 0-based row; the same formula is in the driver
DPrior(e, x) == LET f == FD(e) IN
  [iei |-> e.piei, len |-> e.plen,
   oct |-> [i \in 1..e.L |-> IF i - 1 = f.r1 THEN x ELSE IF i - 1 = f.r0 /\ e.p1 >= 0 THEN e.p1 ELSE OtherOctet(i - 1)]]
MainOf(q, f) == IF f.r0 = f.r1 THEN q.oct[f.r0 + 1] * 256 + GetField(q, f)
                ELSE (q.oct[f.r0 + 1] * 256 + q.oct[f.r1 + 1]) * 1024 + GetField(q, f)
RECURSIVE OtherSum(_, _, _)
OtherSum(q, f, i) == IF i > Len(q.oct) THEN 0
                     ELSE (IF i - 1 < f.r0 \/ i - 1 > f.r1 THEN i * q.oct[i] ELSE 0) + OtherSum(q, f, i + 1)
OtherOf(q, f) == OtherSum(q, f, 1) + (IF q.iei >= 0 THEN 3 * q.iei ELSE 0) + (IF q.len >= 0 THEN 5 * q.len ELSE 0)
\* the three sums in one pass over the 256 priors
DigMain(e, Fix(_, _)) ==
  FoldSet(LAMBDA x, acc : LET m == MainOf(Fix(SetField(DPrior(e, x), FD(e), e.v), FD(e)), FD(e)) IN
                          <<(acc[1] + (1 + x) * (m % P1)) % P1, (acc[2] + (1 + x) * (m % P2)) % P2, (acc[3] + (1 + x) * (m % P3)) % P3>>,
          <<0, 0, 0>>, 0..255)
DigOther(e, p) == ((OtherOf(DPrior(e, 0), FD(e)) % p) * 32896) % p      \* sum of the weights 1..256 is 32896
Same(w, f) == w
DigestClass(e) ==
  CASE ~(WellFormed(e) /\ FD(e).kind = "bits" /\ e.L > FD(e).r1) -> "badevent"
    [] e.sums2 # <<DigOther(e, P1), DigOther(e, P2), DigOther(e, P3)>> -> "digest"
    [] e.sums = DigMain(e, Same) -> "ok"
    [] Low6Field(FD(e)) /\ e.sums = DigMain(e, Low6) -> "low6"
    [] OTHER -> "digest"

Class(e) == IF e.op = "Digest" THEN DigestClass(e) ELSE IF e.op = "Set" THEN ClassOf(e) ELSE "badevent"
TInit == l = 1 /\ TLCSet(2, 0) /\ TLCSet(3, 0)
TNext ==
  /\ l <= Len(TraceLog)
  /\ LET e == TraceLog[l]
         k == Class(e) IN
     /\ IF k = "ok" THEN TRUE ELSE PrintT(<<"MISMATCH", l, k>>)
     /\ IF e.op # "Set" \/ k # "ok" \/ Exact(e) THEN TRUE
        ELSE (IF TLCGet(3) >= 5 THEN TRUE ELSE PrintT(<<"NOTE", l, "inexact">>)) /\ TLCSet(3, TLCGet(3) + 1)
  /\ TLCSet(2, l)
  /\ l' = l + 1
Consumed == PrintT(<<"CONSUMED", TLCGet(2)>>)
=============================================================================
