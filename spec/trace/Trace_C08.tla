----------------------------- MODULE Trace_C08 -----------------------------
(* Trace validation for C08.  The driver runs call histories on real payload buffers and logs, for every
   call of security.NASEncrypt / security.NASMacCalculate, copies of the payload (message), the key and the
   result before and after.  This specification tracks every payload cell across the events of a history
   (SecurityApi's own variables cell / plain / odd) and learns the keystream of each
   parameter point from its first use (Mem); the laws of SecurityApi are then checked on the OBSERVED history:

     guard          error  <=>  ~GuardOK(alg, bearer, dir, payload nil)           (both directions reported separately)
     error-touched  an error leaves the payload untouched
     length         ciphering preserves the length
     null-*         algorithm 0 leaves the payload unchanged / gives an all-zero MAC
     involution     a second application of the same point restores the plaintext
     keystream-varies  before xor after of one point agrees on the common prefix with every earlier observation
                    of that point (prefix stability and independence of the plaintext)
     mac-length, message-modified, key-modified, panic
     result-changed (MacFresh)  the harness writes into every returned MAC right after logging it (inverts every octet, as
                    Scribble) and keeps hold of it (res); after each later call it re-reads the slice (`held`): it must
                    still contain the caller's bytes.  That the write does not leak into later results shows through
                    null-mac-nonzero (MacShape).
     cube-*         the accept set of the full cube alg x bearer 0..255 x direction 0..255, one event per (call, alg)

   Total: a disagreement prints MISMATCH, the tracked state is resynchronised on the observation. *)
EXTENDS SecurityApi, Json
VARIABLE l
\* the tracked state lives in SecurityApi's own variables: cell, plain, odd as in the model; last the call just seen.
\* The keystream prefix learned for each point (the uninterpreted function ks, as observed) is global to the run and large
\* (thousands of points x hundreds of octets): it is kept in TLC register 3 (Mem) instead of the state variable ks, which
\* stays empty - a state variable is fingerprinted at every step, which made validation quadratic.
Mem == TLCGet(3)
TraceLog == ndJsonDeserialize("trace.ndjson")
Dom(f) == DOMAIN f
Put(f, k, v) == (k :> v) @@ f            \* the left operand of @@ wins (TLC module, implemented in Java)
Min(a, b) == IF a < b THEN a ELSE b
PointOf(e) == <<e.alg, e.key, e.cnt, e.bearer, e.dir>>
Tracked(e) == e.cell \in Dom(cell)
Continuity(e) == Tracked(e) /\ (IF e.nil THEN cell[e.cell] = Nil ELSE cell[e.cell] = e.before)
OkGuard(e) == GuardOK(e.alg, e.bearer, e.dir, e.nil)
Obs(e) == XorSeq(e.before, e.after)
\* the result cell the caller holds (at most one: the last returned MAC, already written into) is untouched by this call
HeldOK(e) == IF res = <<>> THEN e.held = <<>> ELSE e.held = res[1].val
EncKind(e) ==
  LET q == PointOf(e)  c == e.cell IN
  IF ~Continuity(e) THEN "continuity"
  ELSE IF ~HeldOK(e) THEN "result-changed"
  ELSE IF e.panic THEN "panic"
  ELSE IF ~e.err /\ ~OkGuard(e) THEN "guard-accepts-invalid"
  ELSE IF e.err /\ OkGuard(e) THEN "guard-rejects-valid"
  ELSE IF e.key_after # e.key THEN "key-modified"
  ELSE IF e.err THEN (IF e.after # e.before THEN "error-touched-payload" ELSE "ok")
  ELSE IF Len(e.after) # Len(e.before) THEN "length"
  ELSE IF e.alg = 0 THEN (IF e.after # e.before THEN "null-modified" ELSE "ok")
  ELSE IF odd[c] = {q} /\ e.after # plain[c] THEN "involution"
  ELSE IF q \in Dom(Mem) /\ (LET n == Min(Len(Mem[q]), Len(e.before)) IN Prefix(Mem[q], n) # Prefix(Obs(e), n)) THEN "keystream-varies"
  ELSE "ok"
MacKind(e) ==
  IF ~Continuity(e) THEN "continuity"
  ELSE IF ~HeldOK(e) THEN "result-changed"
  ELSE IF e.panic THEN "panic"
  ELSE IF ~e.err /\ ~OkGuard(e) THEN "guard-accepts-invalid"
  ELSE IF e.err /\ OkGuard(e) THEN "guard-rejects-valid"
  ELSE IF e.key_after # e.key THEN "key-modified"
  ELSE IF e.after # e.before THEN "message-modified"
  ELSE IF e.err THEN "ok"
  ELSE IF e.macnil \/ Len(e.mac) # 4 THEN "mac-length"
  ELSE IF e.alg = 0 /\ e.mac # ZeroMac THEN "null-mac-nonzero"
  ELSE "ok"
\* the full guard cube of one (call, algorithm): codes are bearer * 256 + direction
SetOf(s) == {s[i] : i \in DOMAIN s}
CubeExpected(alg) == IF alg \in 0..3 THEN {b * 256 + d : b \in 0..31, d \in 0..1} ELSE {}
CubeKind(e) ==
  IF SetOf(e.pan) # {} THEN "cube-panic"
  ELSE IF SetOf(e.acc) \ CubeExpected(e.alg) # {} THEN "cube-accepts-invalid"
  ELSE IF CubeExpected(e.alg) \ SetOf(e.acc) # {} THEN "cube-rejects-valid"
  ELSE IF SetOf(e.chg) \ SetOf(e.acc) # {} THEN "cube-error-touched-payload"
  ELSE IF (e.alg = 0 \/ e.call = "Mac") /\ SetOf(e.chg) # {} THEN "cube-modified"
  ELSE "ok"
Kind(e) ==
  CASE e.op = "Encrypt" -> EncKind(e)
    [] e.op = "Mac" -> MacKind(e)
    [] e.op = "Cube" -> CubeKind(e)
    [] OTHER -> "ok"
\* ---- tracked state, resynchronised on the observation
Applied(e) == e.op = "Encrypt" /\ ~e.err /\ ~e.panic /\ e.alg \in 1..3 /\ ~e.nil /\ Len(e.after) = Len(e.before)
Empty == [x \in {} |-> 0]
TInit == /\ l = 1 /\ cell = Empty /\ plain = Empty /\ odd = Empty /\ ks = Empty /\ last = NoCall /\ res = <<>> /\ TLCSet(2, 0) /\ TLCSet(3, Empty)
TNext ==
  /\ l <= Len(TraceLog)
  /\ (LET e == TraceLog[l]  k == Kind(e)  c == e.cell  q == PointOf(e) IN
      /\ IF k = "ok" THEN TRUE ELSE PrintT(<<"MISMATCH", l, e.op, e.alg, k, e.bearer, e.dir, Len(e.before)>>)
      /\ CASE e.op = "TraceReset" -> cell' = Empty /\ plain' = Empty /\ odd' = Empty /\ UNCHANGED ks   \* Mem (the keystream function) is global: kept across histories
           [] e.op = "Load" -> /\ cell' = Put(cell, c, IF e.nil THEN Nil ELSE e.after)
                               /\ plain' = Put(plain, c, IF e.nil THEN Nil ELSE e.after)
                               /\ odd' = Put(odd, c, {}) /\ UNCHANGED ks
           [] e.op = "Encrypt" ->
                /\ cell' = Put(cell, c, IF e.nil THEN Nil ELSE e.after)
                /\ IF k = "ok" /\ Applied(e)
                   THEN /\ odd' = [odd EXCEPT ![c] = IF q \in @ THEN @ \ {q} ELSE @ \cup {q}]
                        /\ (IF q \in Dom(Mem) /\ Len(Mem[q]) >= Len(e.before) THEN TRUE ELSE TLCSet(3, Put(Mem, q, Obs(e))))
                        /\ UNCHANGED <<plain, ks>>
                   ELSE IF k = "ok"
                   THEN UNCHANGED <<plain, odd, ks>>
                   ELSE /\ plain' = Put(plain, c, IF e.nil THEN Nil ELSE e.after)      \* after a mismatch: restart the cell from what was seen
                        /\ odd' = Put(odd, c, {})
                        /\ UNCHANGED ks
           [] e.op = "Mac" ->
                /\ cell' = Put(cell, c, IF e.nil THEN Nil ELSE e.after)
                /\ IF k = "ok" THEN UNCHANGED <<plain, odd, ks>>
                   ELSE /\ plain' = Put(plain, c, IF e.nil THEN Nil ELSE e.after) /\ odd' = Put(odd, c, {}) /\ UNCHANGED ks
           [] OTHER -> UNCHANGED <<cell, plain, odd, ks>>)
  /\ res' = (LET e == TraceLog[l] IN
              CASE e.op = "TraceReset" -> <<>>                                  \* the harness lets go of its results
                [] e.op = "Mac" /\ ~e.err /\ ~e.panic /\ ~e.macnil ->           \* a new result cell, written into at once
                     <<[val |-> InvT(e.mac), given |-> e.mac, dirty |-> TRUE]>>
                [] e.op = "Mac" -> <<>>                                         \* no result returned: nothing held any more
                [] OTHER -> res)
  /\ last' = (LET e == TraceLog[l] IN [NoCall EXCEPT !.op = e.op, !.c = e.cell, !.alg = e.alg, !.bearer = e.bearer, !.dir = e.dir, !.err = e.err, !.mac = e.mac])
  /\ TLCSet(2, l)
  /\ l' = l + 1
Consumed == PrintT(<<"CONSUMED", TLCGet(2)>>)
=============================================================================
