------------------------------ MODULE Trace_X03 ------------------------------
(* Trace validation for X03 (harness/cmd/received).  One self-contained event per line:
     Recv   inp -> nas.Message.PlainNasDecode (ok, msg) -> the real converters / getters on the decoded objects:
            f = the readings [n element, a aspect, st, v], g = the same readings taken again after a second message
            of the same type went through the same code and the input buffer was overwritten
     Built  as Recv, for octets produced by the real ENCODERS and PlainNasEncode from the model values in `want`
   For each event TLC recomputes Received(inp) (spec/ReceivedMessage.tla) and compares reading by reading:
     <<"MISMATCH", l, message, element.aspect, class>>      (verdicts; l = event number)
        hang / panic                    a reading (or the decode) does not return / panics inside the library
        accepts-outside-grammar, rejects-inside-grammar, routed-differently      the decode itself (C04 / C05)
        presence                        an element the message carries is not there for the receiver, or vice versa
        wrong-value                     the receiver reads another value than Received(inp) says
        valid-rejected                  a converter reports an error for contents the specification reads
        malformed-accepted              a converter reads contents for which the properties demand an error
        contents-not-in-input           (inexact PCO list) units that are not, in order, the units of the contents
        not-read                        the route of the receiver does not reach the converter (type of identity)
        reading-changed                 the second reading differs from the first
        built-differs                   (Built) Received(octets) is not what was handed to the encoders
     <<"OPEN", l, message, element.aspect, observed status>>   information: contents outside the domain on which the
        properties fix the result (each combination once per shard)
     <<"NOTE", l, ..>> information; <<"HARNESS", l, what>> a problem of the driver or of the event (infra).
   Total: every event is consumed whatever it contains. *)
EXTENDS ReceivedMessage, Json, TLC
VARIABLE txl
TraceLog == ndJsonDeserialize("trace.ndjson")

TxPrefix(a, b) == Len(a) <= Len(b) /\ \A k \in 1..Len(a) : a[k] = b[k]
\* classes of ONE reading: s = specification, o = first observation, o2 = second observation
TxValue(s, o) ==
  CASE s.st = "absent" -> IF o.st = "absent" THEN {} ELSE {"presence"}
    [] o.st = "absent" -> {"presence"}
    [] s.st = "val" -> IF o.st = "val" THEN (IF o.v = s.v THEN {} ELSE {"wrong-value"})
                       ELSE IF o.st = "err" THEN {"valid-rejected"} ELSE {"not-read"}
    [] s.st = "err" -> IF o.st = "err" THEN {} ELSE {"malformed-accepted"}
    [] s.st = "valerr" -> IF o.st = "err" THEN {} ELSE IF o.st = "val" /\ o.v = s.v THEN {} ELSE {"wrong-value"}
    [] s.st = "pfx" -> IF o.st \in {"val", "err"} /\ TxPrefix(o.v, s.v) THEN {} ELSE {"contents-not-in-input"}
    [] OTHER -> {}
TxAgain(o, o2) == IF o2.st # o.st THEN {"reading-changed"} ELSE IF o2.v # o.v THEN {"reading-changed"} ELSE {}
TxReading(s, o, o2) ==
  IF o.st = "panic" \/ o2.st = "panic" THEN {"panic"}
  ELSE TxValue(s, o) \cup TxAgain(o, o2)

TxName(s) == s.n \o "." \o s.a
TxKeysOK(S, F) == Len(F) = Len(S) /\ \A i \in 1..Len(S) : F[i].n = S[i].n /\ F[i].a = S[i].a

\* the model values of a Built event against the specification's reading of the produced octets
TxWantLines(e, R) ==
  {<<"MISMATCH", txl, e.msg, e.want[i].n \o "." \o e.want[i].a, "built-differs">> :
     i \in {j \in 1..Len(e.want) :
              LET w == e.want[j]
                  hit == {k \in 1..Len(R.f) : R.f[k].n = w.n /\ R.f[k].a = w.a} IN
              ~(hit # {} /\ \A k \in hit : R.f[k].st = "val" /\ R.f[k].v = w.v)}}

Lines(e, R) ==
  LET who == IF e.msg # "" THEN e.msg ELSE "Decode" IN
  IF e.op = "Built" /\ e.berr # "" THEN {<<"MISMATCH", txl, e.msg, "-", "encoders-refused">>}
  ELSE IF e.hang THEN {<<"MISMATCH", txl, who, e.phase, "hang">>}
  ELSE IF e.panic THEN (IF e.plib THEN {<<"MISMATCH", txl, who, e.phase, "panic">>} ELSE {<<"HARNESS", txl, "panic in the driver">>})
  ELSE IF R.ok # e.ok \/ (R.ok /\ R.msg # e.msg) THEN
       (IF ~RxAllKnown(e.inp) THEN {<<"NOTE", txl, "unknown-iei">>}
        ELSE {<<"MISMATCH", txl, "Decode", "-", IF R.ok # e.ok THEN (IF e.ok THEN "accepts-outside-grammar" ELSE "rejects-inside-grammar")
                                                ELSE "routed-differently">>})
  ELSE IF ~R.ok THEN (IF Len(e.f) = 0 THEN {} ELSE {<<"HARNESS", txl, "readings of a refused message">>})
  ELSE LET S == RxBoundOnly(R.f) IN
       IF ~(TxKeysOK(S, e.f) /\ TxKeysOK(S, e.g)) THEN {<<"HARNESS", txl, "binding tables differ">>}
       ELSE IF \E i \in 1..Len(S) : e.f[i].st = "hpanic" \/ e.g[i].st = "hpanic" THEN {<<"HARNESS", txl, "panic in the driver">>}
       ELSE UNION {{<<"MISMATCH", txl, R.msg, TxName(S[i]), c>> : c \in TxReading(S[i], e.f[i], e.g[i])} : i \in 1..Len(S)}
            \cup (IF e.op = "Built" THEN TxWantLines(e, R) ELSE {})
\* information: which readings fell outside the domain of the properties, and what the code did there
Opens(e, R) ==
  IF e.hang \/ e.panic \/ ~R.ok \/ ~e.ok \/ R.msg # e.msg THEN {}
  ELSE LET S == RxBoundOnly(R.f) IN
       IF ~TxKeysOK(S, e.f) THEN {}
       ELSE {<<R.msg, TxName(S[i]), e.f[i].st>> : i \in {j \in 1..Len(S) : S[j].st = "open"}}
\* how many bound readings of this event the specification fixes, by status (coverage accounting)
TxZero == [st \in RxStatuses |-> 0]
Stats(e, R) == IF e.hang \/ e.panic \/ ~R.ok \/ ~e.ok THEN TxZero
               ELSE LET S == RxBoundOnly(R.f) IN [st \in RxStatuses |-> Cardinality({i \in 1..Len(S) : S[i].st = st})]
Report(e) == LET R == Received(e.inp) IN [lines |-> Lines(e, R), opens |-> Opens(e, R), stats |-> Stats(e, R)]

TInit == txl = 1 /\ TLCSet(2, 0) /\ TLCSet(3, {}) /\ TLCSet(4, TxZero)
TNext ==
  /\ txl <= Len(TraceLog)
  /\ LET rep == Report(TraceLog[txl])
         fresh == rep.opens \ TLCGet(3)
     IN /\ \A t \in rep.lines : PrintT(t)
        /\ \A k \in fresh : PrintT(<<"OPEN", txl, k[1], k[2], k[3]>>)      \* each (message, reading, status) once per shard
        /\ TLCSet(3, TLCGet(3) \cup fresh)
        /\ TLCSet(4, [st \in RxStatuses |-> TLCGet(4)[st] + rep.stats[st]])
  /\ TLCSet(2, txl)
  /\ txl' = txl + 1
TSpec == TInit /\ [][TNext]_txl
Consumed == /\ PrintT(<<"STATS", TLCGet(4)["val"], TLCGet(4)["err"], TLCGet(4)["valerr"], TLCGet(4)["pfx"], TLCGet(4)["open"], TLCGet(4)["absent"]>>)
            /\ PrintT(<<"CONSUMED", TLCGet(2)>>)
=============================================================================
