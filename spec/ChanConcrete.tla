---------------------------- MODULE ChanConcrete ----------------------------
(* X01: the concrete cipher and MAC octets of a protected NAS message, from the standard algorithms of
   spec/Eea.tla and spec/Eia.tla (128-NEA0..3, 128-NIA0..3; TS 33.501 Annex D):
     ciphertext = NEA(KNASenc, COUNT = 0x00 || NAS COUNT, BEARER, DIRECTION, plain)
     MAC        = NIA(KNASint, COUNT, BEARER, DIRECTION, SQN || ciphertext)            (TS 24.501 4.4.3.3)
   tools/checks/x01.py replaces this module by a stub with ChanHasConcrete == FALSE when the cipher
   specifications are not usable; the trace specification then checks the abstract facts only. *)
EXTENDS Eia
ChanHasConcrete == TRUE
ChanCount(c) == U32(c)                                       \* 0x00 || NAS COUNT, 4 octets, c < 2^24
ChanCipher(nea, kenc, c, bearer, dir, data) == EEA(nea, kenc, ChanCount(c), bearer, dir, data, 8 * Len(data))
ChanMac(nia, kint, c, bearer, dir, sqn, ct) == EIA(nia, kint, ChanCount(c), bearer, dir, <<sqn>> \o ct, 8 * (Len(ct) + 1))
=============================================================================
