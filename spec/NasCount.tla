------------------------------ MODULE NasCount ------------------------------
(* C11 - the NAS COUNT of TS 33.501 6.4.3.1 / TS 24.501 4.4.3.1:
     NAS COUNT (24 bits) := NAS OVERFLOW (16 bits) || NAS SQN (8 bits)
   The counter is ONE number c in 0 .. 2^24-1; overflow and sequence number are its two
   digits in base 256/65536, not separate storage.  Every operation of the object is a function
   on c (written here from the statement of the property, not from the Go code):
     Set(o, s)        c' = o*256 + s
     SetSQN(s)        replaces the low digit, keeps the overflow part
     SetOverflow(o)   replaces the high digit, keeps the sequence number
     AddOne           c' = (c + 1) mod 2^24  (255 -> 0 carries into overflow, 2^24-1 wraps to 0)
     Get/SQN/Overflow reads: c' = c
   Reads are operations of the machine like the others (they may happen or not, in any order,
   between the writes): that they leave c unchanged is what makes a later read agree with an
   earlier one.
   The *F operators give the next value as a function of the current one; the digest
   conformance (DESIGN 4.3) folds exactly these operators over all 2^24 states. *)
EXTENDS Integers
CONSTANTS SqnArgs,      \* arguments tried for SetSQN           (subset of 0..255)
          OvfArgs,      \* arguments tried for SetOverflow      (subset of 0..65535)
          SetArgs,      \* <<o, s>> pairs tried for Set
          Starts        \* initial values of the counter
VARIABLE c

M   == 16777216          \* 2^24
OvfOf(x) == x \div 256   \* NAS OVERFLOW part of a counter value
SqnOf(x) == x % 256      \* NAS SQN part

SetF(o, s)        == o * 256 + s
SetSQNF(x, s)     == OvfOf(x) * 256 + s
SetOverflowF(x, o) == o * 256 + SqnOf(x)
AddOneF(x)        == (x + 1) % M
AddRunF(x, k)     == (x + k) % M          \* k increments in a row (checked against Iter in stage A)

\* one operator for all operations: the value after operation `op` with arguments a, b from value x
Apply(op, a, b, x) ==
  CASE op = "Set"         -> SetF(a, b)
    [] op = "SetSQN"      -> SetSQNF(x, a)
    [] op = "SetOverflow" -> SetOverflowF(x, a)
    [] op = "AddOne"      -> AddOneF(x)
    [] op = "AddRun"      -> AddRunF(x, a)
    [] OTHER              -> x          \* Get, SQN, Overflow

Set(o, s)      == c' = SetF(o, s)
SetSQN(s)      == c' = SetSQNF(c, s)
SetOverflow(o) == c' = SetOverflowF(c, o)
AddOne         == c' = AddOneF(c)
Read           == c' = c

Init == c \in Starts
Next == \/ \E p \in SetArgs : Set(p[1], p[2])
        \/ \E s \in SqnArgs : SetSQN(s)
        \/ \E o \in OvfArgs : SetOverflow(o)
        \/ AddOne
        \/ Read
Spec == Init /\ [][Next]_c

\* ---- the property ------------------------------------------------------------------------
TypeOK == c \in 0..(M - 1)
\* "the counter value always equals overflow x 256 + sequence number and is below 2^24"
Composed == /\ c = OvfOf(c) * 256 + SqnOf(c)
            /\ OvfOf(c) \in 0..65535 /\ SqnOf(c) \in 0..255
            /\ c < M

\* "incrementing adds one modulo 2^24 (SQN 255 rolls to 0 and carries into the overflow part)",
\* spelled out digit by digit so that it is not the definition of AddOneF read twice
IncrDigits(x, y) ==
  IF SqnOf(x) < 255 THEN SqnOf(y) = SqnOf(x) + 1 /\ OvfOf(y) = OvfOf(x)
  ELSE /\ SqnOf(y) = 0
       /\ OvfOf(y) = (IF OvfOf(x) = 65535 THEN 0 ELSE OvfOf(x) + 1)
AddOneCarries        == [][AddOne => IncrDigits(c, c')]_c
AddOneIsSuccessor    == [][AddOne => (IF c = M - 1 THEN c' = 0 ELSE c' = c + 1)]_c
\* "setting the sequence number never changes the overflow part and vice versa"
SetSQNKeepsOverflow  == [][\A s \in SqnArgs : SetSQN(s) => (OvfOf(c') = OvfOf(c) /\ SqnOf(c') = s)]_c
SetOverflowKeepsSQN  == [][\A o \in OvfArgs : SetOverflow(o) => (SqnOf(c') = SqnOf(c) /\ OvfOf(c') = o)]_c
SetIsBoth            == [][\A p \in SetArgs : Set(p[1], p[2]) => (OvfOf(c') = p[1] /\ SqnOf(c') = p[2])]_c
\* Set(o, s) is SetOverflow(o) followed by SetSQN(s), in either order
SetCommutes == \A p \in SetArgs :
                  /\ SetSQNF(SetOverflowF(c, p[1]), p[2]) = SetF(p[1], p[2])
                  /\ SetOverflowF(SetSQNF(c, p[2]), p[1]) = SetF(p[1], p[2])
\* 256 increments advance the overflow part by exactly one and restore the sequence number
RECURSIVE Iter(_, _)
Iter(x, n) == IF n = 0 THEN x ELSE Iter(AddOneF(x), n - 1)
=============================================================================
